import Driver.Util
import Garr.Locked.Model
/-! Trace acceptor for the mutex-based queue and adder (lock-level events of the cooperative `vsync.RWMutex`). -/
namespace Driver.LockedAcc
open Garr.Locked Driver

structure AccSt (S Op Ret : Type) where
  g : LG S
  ls : List (Nat × LL S Op Ret) := []
  pendRet : List (Nat × String) := []
  mutexAddr : Option Nat := none
  steps : Nat := 0

variable {S Op Ret : Type}

def getL (a : AccSt S Op Ret) (t : Nat) : LL S Op Ret := (a.ls.lookup t).getD .idle
def setL (a : AccSt S Op Ret) (t : Nat) (l : LL S Op Ret) : AccSt S Op Ret := { a with ls := (t, l) :: a.ls.filter (·.1 != t) }

def pcName : LL S Op Ret → String
  | .idle => "idle" | .acq _ => "acq" | .rd _ => "rd" | .wr .. => "wr" | .rel .. => "rel" | .retn _ => "retn"

/-- one model step of thread t; returns the observations -/
def doStep (P : Prog S Op Ret) (a : AccSt S Op Ret) (t : Nat) (act : LAct Op) : Option (AccSt S Op Ret × List (LObs Ret)) :=
  match step P t a.g (getL a t) act with
  | none => none
  | some (g', l', obs) => some (setL { a with g := g', steps := a.steps + 1 } t l', obs)

/-- run the internal read / write steps of the critical section -/
def runInside (P : Prog S Op Ret) (a : AccSt S Op Ret) (t : Nat) : AccSt S Op Ret :=
  let a1 := match getL a t with
    | .rd _ => (match doStep P a t .tau with | some (a', _) => a' | none => a)
    | _ => a
  match getL a1 t with
  | .wr .. => (match doStep P a1 t .tau with | some (a', _) => a' | none => a1)
  | _ => a1

def processLine (P : Prog S Op Ret) (parseOp : List String → Option Op) (showRet : Ret → String)
    (a : AccSt S Op Ret) (toks : List String) : Except String (AccSt S Op Ret) :=
  match toks with
  | "inv" :: t :: rest =>
    match t.toNat?, parseOp rest with
    | some t, some op =>
      match doStep P a t (.call op) with
      | some (a', _) => .ok a'
      | none => .error s!"invocation not enabled at {pcName (getL a t)}"
    | _, _ => .error "bad inv"
  | ["ev", t, _layer, kind, addr, _, _, _, _, _, _] =>
    match t.toNat?, hexVal? addr with
    | some t, some addr =>
      match a.mutexAddr with
      | some m => if m != addr then .error "lock operation on a different mutex" else
        go a t kind
      | none => go { a with mutexAddr := some addr } t kind
    | _, _ => .error "bad ev"
  | ["ret", t, v] =>
    match t.toNat? with
    | none => .error "bad ret"
    | some t =>
      match getL a t with
      | .retn r =>
        if showRet r != v then .error s!"return value: model {showRet r} impl {v}" else
        match doStep P a t .tau with
        | some (a', _) => .ok a'
        | none => .error "model ret step not enabled"
      | l => .error s!"implementation returned {v} but the model thread is at {pcName l} (a method returned while holding / before taking its lock)"
  | _ => .error "bad line"
where
  go (a : AccSt S Op Ret) (t : Nat) (kind : String) : Except String (AccSt S Op Ret) :=
    match getL a t, kind with
    | .acq op, "lock" =>
      if !P.writes op then .error "implementation took the WRITE lock in a method the table declares as reader" else
      (match doStep P a t .tau with
       | some (a', _) => .ok (runInside P a' t)
       | none => .error "implementation acquired the write lock while the model says it is held (mutual exclusion broken)")
    | .acq op, "rlock" =>
      if P.writes op then .error "implementation took only the READ lock in a method that writes the guarded state" else
      (match doStep P a t .tau with
       | some (a', _) => .ok (runInside P a' t)
       | none => .error "implementation acquired the read lock while a writer holds it in the model")
    | .rel op _, "unlock" =>
      if !P.writes op then .error "Unlock in a reader" else
      (match doStep P a t .tau with | some (a', _) => .ok a' | none => .error "unlock not enabled")
    | .rel op _, "runlock" =>
      if P.writes op then .error "RUnlock in a writer" else
      (match doStep P a t .tau with | some (a', _) => .ok a' | none => .error "runlock not enabled")
    | l, k => .error s!"lock event {k} but the model thread is at {pcName l} (the method is not one critical section?)"

def parseQOp : List String → Option QOp
  | ["offer", v] => v.toNat?.map QOp.offer
  | ["poll"] => some .poll | ["peek"] => some .peek | ["size"] => some .size | ["isempty"] => some .isEmpty
  | _ => none
def showQRet : QRet → String
  | .unit => "unit" | .nil => "nil" | .val v => s!"v{v}" | .int n => s!"n{n}" | .bool b => toString b

def parseAOp : List String → Option AOp
  | ["add", x] => x.toInt?.map AOp.add
  | ["sum"] => some .sum | ["reset"] => some .reset | ["sar"] => some .sumAndReset
  | ["store", v] => v.toInt?.map AOp.store
  | _ => none
def showARet : Option Int → String | none => "unit" | some v => toString v

end Driver.LockedAcc
