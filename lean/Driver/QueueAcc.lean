import Driver.Util
import Garr.Queue.Model
/-!
Trace acceptor for the lock-free queue: replays the implementation's event log (one line per
atomic operation, in schedule order) against `Garr.Queue.step`, comparing operation kind, location,
operands and results modulo a bijection between implementation addresses and model names.
-/
namespace Driver.QueueAcc
open Garr.Conc Garr.Queue Driver

inductive Loc | H | T | I (pos : Nat) | N (pos : Nat) | Ipend (t : Nat) | Npend (t : Nat)
deriving BEq, Repr

inductive PV | nil | node (pos : Nat) | pend | item (pos : Nat)   -- pointer values by model name
deriving BEq, Repr

structure Ev where
  kind : String
  loc : Loc
  a : PV := .nil
  b : PV := .nil
  r : PV := .nil
  ok : Bool := false
deriving Repr

def nextPV (g : G) (p : Nat) : PV := match g.next p with | none => .nil | some q => .node q
def itemPV (g : G) (p : Nat) : PV := if g.live p then .item p else .nil

/-- the single shared-memory access the next step of `l` performs -/
def expect (g : G) : L → Option Ev
  | .o0 _ => some { kind := "ldp", loc := .T, r := .node g.tail }
  | .o1 _ _ p => some { kind := "ldp", loc := .N p, r := nextPV g p }
  | .o2 _ _ p => some { kind := "casp", loc := .N p, a := .nil, b := .pend, ok := g.next p == none }
  | .o3 t nw => some { kind := "casp", loc := .T, a := .node t, b := .node nw, ok := g.tail == t }
  | .o4 _ _ _ => some { kind := "ldp", loc := .T, r := .node g.tail }
  | .o4b _ _ => some { kind := "ldp", loc := .H, r := .node g.head }
  | .o5 _ _ _ _ => some { kind := "ldp", loc := .T, r := .node g.tail }
  | .p0 => some { kind := "ldp", loc := .H, r := .node g.head }
  | .p1 _ p => some { kind := "ldp", loc := .I p, r := itemPV g p }
  | .p2 _ p => some { kind := "casp", loc := .I p, a := .item p, b := .nil, ok := g.live p }
  | .p3 _ p _ => some { kind := "ldp", loc := .N p, r := nextPV g p }
  | .p4 _ p => some { kind := "ldp", loc := .N p, r := nextPV g p }
  | .k0 _ => some { kind := "ldp", loc := .H, r := .node g.head }
  | .k1 _ _ p => some { kind := "ldp", loc := .I p, r := itemPV g p }
  | .k2 _ _ p => some { kind := "ldp", loc := .N p, r := nextPV g p }
  | .u1 h tgt _ => some { kind := "casp", loc := .H, a := .node h, b := .node tgt, ok := g.head == h }
  | .u2 h _ => some { kind := "stp", loc := .N h, a := .node h }
  | .s1 p _ => some { kind := "ldp", loc := .I p, r := itemPV g p }
  | .s2 p _ => some { kind := "ldp", loc := .N p, r := nextPV g p }
  | .n0 _ pred => some { kind := "ldp", loc := .N pred, r := nextPV g pred }
  | .n0h _ _ => some { kind := "ldp", loc := .H, r := .node g.head }
  | .n1 _ _ p => some { kind := "ldp", loc := .I p, r := itemPV g p }
  | .n2 _ _ p => some { kind := "ldp", loc := .N p, r := nextPV g p }
  | .n2h _ _ _ => some { kind := "ldp", loc := .H, r := .node g.head }
  | .n3 _ pred p q => some { kind := "casp", loc := .N pred, a := .node p, b := .node q, ok := g.next pred == some p }
  | .r0 _ l => some { kind := "stp", loc := .I l, a := .nil }
  | .idle => none
  | .idleIt _ => none

def pcName : L → String
  | .idle => "idle" | .o0 _ => "o0" | .o1 .. => "o1" | .o2 .. => "o2" | .o3 .. => "o3" | .o4 .. => "o4" | .o4b .. => "o4b"
  | .o5 .. => "o5" | .p0 => "p0" | .p1 .. => "p1" | .p2 .. => "p2" | .p3 .. => "p3" | .p4 .. => "p4"
  | .k0 m => s!"k0.{repr m}" | .k1 m .. => s!"k1.{repr m}" | .k2 m .. => s!"k2.{repr m}"
  | .u1 .. => "u1" | .u2 .. => "u2" | .s1 .. => "s1" | .s2 .. => "s2" | .idleIt _ => "idleIt"
  | .n0 .. => "n0" | .n0h .. => "n0h" | .n1 .. => "n1" | .n2 .. => "n2" | .n2h .. => "n2h" | .n3 .. => "n3" | .r0 .. => "r0"

structure AccSt where
  g : G := Garr.Queue.init
  ls : List (Nat × L) := []
  locMap : List (Nat × Loc) := []          -- impl address ↦ model location
  nodeAddr : List (Nat × Nat) := []        -- model node position ↦ impl pointer value
  itemAddr : List (Nat × Nat) := []        -- model node position ↦ impl item pointer value
  pendAddr : List (Nat × Nat) := []        -- tid ↦ impl pointer of its pending (unlinked) node
  pendRet : List (Nat × String) := []
  lps : List (Nat × Obs) := []
  steps : Nat := 0

def getL (a : AccSt) (t : Nat) : L := (a.ls.lookup t).getD .idle
def setL (a : AccSt) (t : Nat) (l : L) : AccSt := { a with ls := (t, l) :: a.ls.filter (·.1 != t) }

/-- check a pointer value of the implementation against the model's name, extending the bijection -/
def matchPV (a : AccSt) (t : Nat) (pv : PV) (x : Nat) : Option AccSt :=
  match pv with
  | .nil => if x == 0 then some a else none
  | .node p =>
    match a.nodeAddr.lookup p with
    | some y => if x == y then some a else none
    | none => if x != 0 && !(a.nodeAddr.any (·.2 == x)) && !(a.pendAddr.any (·.2 == x))
              then some { a with nodeAddr := (p, x) :: a.nodeAddr } else none
  | .item p =>
    match a.itemAddr.lookup p with
    | some y => if x == y then some a else none
    | none => if x != 0 && !(a.itemAddr.any (·.2 == x)) then some { a with itemAddr := (p, x) :: a.itemAddr } else none
  | .pend =>
    match a.pendAddr.lookup t with
    | some y => if x == y then some a else none
    | none => if x != 0 && !(a.nodeAddr.any (·.2 == x)) && !(a.pendAddr.any (·.2 == x))
              then some { a with pendAddr := (t, x) :: a.pendAddr } else none

def matchLoc (a : AccSt) (loc : Loc) (addr : Nat) : Option AccSt :=
  match a.locMap.lookup addr with
  | some l => if l == loc then some a else none
  | none => if a.locMap.any (·.2 == loc) then none else some { a with locMap := (addr, loc) :: a.locMap }

def retStr : Ret → String
  | .unit => "unit" | .nil => "nil" | .val v => s!"v{v}" | .bool b => toString b | .int n => s!"n{n}"

/-- perform the model step of thread t with action act; record LP markers and pending return -/
def doStep (a : AccSt) (t : Nat) (act : Act) : Option AccSt :=
  match step t a.g (getL a t) act with
  | none => none
  | some (g', l', obs) =>
    let a1 := setL { a with g := g', steps := a.steps + 1 } t l'
    let a2 := obs.foldl (fun acc o => match o with
      | .ret r => { acc with pendRet := (t, retStr r) :: acc.pendRet.filter (·.1 != t) }
      | .retAux r => { acc with pendRet := (t, retStr r) :: acc.pendRet.filter (·.1 != t) }
      | o => { acc with lps := (t, o) :: acc.lps }) a1
    some a2

def invAct (toks : List String) : Option Act :=
  match toks with
  | ["offer", v] => v.toNat?.map Act.offer
  | ["poll"] => some .poll
  | ["peek"] => some .peek
  | ["isempty"] => some .isEmpty
  | ["size"] => some .size
  | ["iter"] => some .iterator
  | ["hasnext"] => some .hasNext
  | ["next"] => some .next
  | ["remove"] => some .remove
  | ["drop"] => some .drop
  | _ => none

def processLine (a : AccSt) (toks : List String) : Except String AccSt :=
  match toks with
  | "inv" :: t :: rest =>
    match t.toNat?, invAct rest with
    | some t, some act =>
      match doStep a t act with
      | some a' => .ok a'
      | none => .error s!"invocation {rest} not enabled in model state {pcName (getL a t)}"
    | _, _ => .error "bad inv line"
  | ["ev", t, _layer, kind, addr, xa, xb, xr, _ln, _cp, ok] =>
    match t.toNat?, hexVal? addr, hexVal? xa, hexVal? xb, hexVal? xr with
    | some t, some addr, some xa, some xb, some xr =>
      let l := getL a t
      match expect a.g l with
      | none => .error s!"thread {t} is between operations in the model ({pcName l}) but the implementation performed {kind}"
      | some e =>
        if e.kind != kind then .error s!"at {pcName l}: model expects {e.kind} on {repr e.loc}, implementation did {kind}" else
        if kind == "casp" && e.ok != (ok == "1") then .error s!"at {pcName l}: cas outcome: model {e.ok} impl {ok}" else
        match matchLoc a e.loc addr with
        | none => .error s!"at {pcName l}: location mismatch: model expects {repr e.loc}"
        | some a1 =>
        match (if kind == "ldp" then matchPV a1 t e.r xr
               else if kind == "casp" then (matchPV a1 t e.a xa).bind (fun a2 => matchPV a2 t e.b xb)
               else matchPV a1 t e.a xa) with
        | none => .error s!"at {pcName l}: pointer value mismatch: model expects {repr e}"
        | some a2 =>
          -- on a successful link, the pending node becomes node position g.n
          let a3 := match l, e.ok with
            | .o2 _ _ _, true =>
              match a2.pendAddr.lookup t with
              | some x => { a2 with nodeAddr := (a2.g.n, x) :: a2.nodeAddr, pendAddr := a2.pendAddr.filter (·.1 != t) }
              | none => a2
            | _, _ => a2
          match doStep a3 t .tau with
          | some a4 => .ok a4
          | none => .error "model step not enabled"
    | _, _, _, _, _ => .error "bad ev line"
  | ["ret", t, v] =>
    match t.toNat? with
    | none => .error "bad ret line"
    | some t =>
      match a.pendRet.lookup t with
      | none => .error s!"implementation returned {v} but the model operation of thread {t} is at {pcName (getL a t)}"
      | some r =>
        if r == v then .ok { a with pendRet := a.pendRet.filter (·.1 != t), pendAddr := a.pendAddr.filter (·.1 != t) }
        else .error s!"return value: model {r} impl {v}"
  | _ => .error s!"bad line"

def obsStr : Obs → String
  | .lpOffer v => s!"offer({v})" | .lpPoll r => s!"poll={retStr r}" | .lpPeek r => s!"peek={retStr r}"
  | .lpEmpty b => s!"empty={b}" | .lpRemove p w => s!"remove@{p}:{w}" | .itNext p v => s!"it@{p}={v}" | .ret r => s!"ret {retStr r}" | .retAux r => s!"ret {retStr r}"

end Driver.QueueAcc
