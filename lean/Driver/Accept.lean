import Driver.QueueAcc
import Driver.AdderAcc
import Driver.BreakerAcc
import Driver.PoolAcc
import Driver.LockedAcc
import Driver.SimpleAdderAcc
import Driver.FineAcc
import Driver.PoolStepAcc
/-!
Generic run loop for trace acceptors.  Input: runs separated by `reset …` lines and closed by `end`.
Output per run: `ACCEPT <run> steps=<n> <summary>` or `REJECT <run> line=<n> :: <line> :: <reason>`;
after the last run `COV <pc> <count>` lines and a `TOTAL` line.
-/
namespace Driver

structure Acceptor (σ : Type) where
  init : List String → σ                    -- from the tokens of the `reset` line
  line : σ → List String → Except String σ
  pc : σ → Nat → String                      -- program counter name of thread t before the step (coverage)
  summary : σ → String
  stuck : σ → List String                    -- threads the model believes to be mid-operation at `end` (informational)
  extraCov : σ → List String := fun _ => []  -- further coverage names produced by the line just accepted (silent steps, branches)
  extraSteps : σ → Nat := fun _ => 0         -- model steps without a trace line of their own executed by the line just accepted

partial def acceptLoop {σ : Type} (A : Acceptor σ) (h : IO.FS.Stream) (out : IO.FS.Stream) : IO Unit := do
  let rec go (st : σ) (run lineNo : Nat) (active skipping : Bool) (accepted rejected steps : Nat)
      (cov : List (String × Nat)) : IO Unit := do
    let line ← h.getLine
    if line.isEmpty then
      for (k, v) in cov do out.putStrLn s!"COV {k} {v}"
      out.putStrLn s!"TOTAL runs={accepted + rejected} accepted={accepted} rejected={rejected} steps={steps}"
      return ()
    let toks := splitWs line
    match toks with
    | "reset" :: rest => go (A.init rest) (run + 1) 0 true false accepted rejected steps cov
    | ["end"] =>
      if active && !skipping then
        out.putStrLn s!"ACCEPT {run} {A.summary st}"
        go st run (lineNo + 1) false false (accepted + 1) rejected steps cov
      else go st run (lineNo + 1) false false accepted rejected steps cov
    | [] => go st run (lineNo + 1) active skipping accepted rejected steps cov
    | "freeze" :: _ => go st run (lineNo + 1) active skipping accepted rejected steps cov
    | _ =>
      if skipping || !active then go st run (lineNo + 1) active skipping accepted rejected steps cov
      else
        let (cov', steps') :=
          match toks with
          | "tick" :: t :: _ =>
            let name := A.pc st (t.toNat?.getD 0)
            let c := (cov.lookup name).getD 0
            ((name, c + 1) :: cov.filter (·.1 != name), steps + 1)
          | "ev" :: t :: _ =>
            let name := A.pc st (t.toNat?.getD 0)
            let c := (cov.lookup name).getD 0
            ((name, c + 1) :: cov.filter (·.1 != name), steps + 1)
          | _ => (cov, steps)
        match A.line st toks with
        | .ok st' =>
          let cov'' := (A.extraCov st').foldl (fun cv name => (name, (cv.lookup name).getD 0 + 1) :: cv.filter (·.1 != name)) cov'
          go st' run (lineNo + 1) active false accepted rejected (steps' + A.extraSteps st') cov''
        | .error e =>
          out.putStrLn s!"REJECT {run} line={lineNo + 1} :: {line.trimAscii} :: {e}"
          go st run (lineNo + 1) active true accepted (rejected + 1) steps' cov'
  go (A.init []) 0 0 false false 0 0 0 []

def queueAcceptor : Acceptor QueueAcc.AccSt where
  init := fun _ => {}
  line := QueueAcc.processLine
  pc := fun st t => QueueAcc.pcName (QueueAcc.getL st t)
  summary := fun st => s!"steps={st.steps} n={st.g.n} abs={Garr.Queue.abs st.g} lps={st.lps.reverse.map (fun (t, o) => s!"{t}:{QueueAcc.obsStr o}")}"
  stuck := fun st => st.ls.filterMap (fun (t, l) => match l with | .idle => none | .idleIt _ => none | l => some s!"{t}:{QueueAcc.pcName l}")

def adderAcceptor : Acceptor AdderAcc.AccSt where
  init := AdderAcc.initSt
  line := AdderAcc.processLine
  pc := fun st t => AdderAcc.pcName (AdderAcc.getL st t)
  summary := fun st => s!"steps={st.steps} applied={st.g.applied} base={st.g.base} ncell={st.g.ncell} narr={st.g.narr} tbl={st.g.tbl} lps={st.lps.length}"
  stuck := fun st => st.ls.filterMap (fun (t, l) => match l with | .idle => none | l => some s!"{t}:{AdderAcc.pcName l}")

def breakerAcceptor : Acceptor BreakerAcc.AccSt where
  init := BreakerAcc.initSt
  line := BreakerAcc.processLine
  pc := fun st t => BreakerAcc.pcName (BreakerAcc.getL st t)
  summary := fun st => s!"steps={st.steps} objs={st.g.objs.length} cur={st.g.cur} wins={st.g.wins.length} buckets={st.g.buckets.length} ghost={st.ghost.reverse}"
  stuck := fun st => st.ls.filterMap (fun (t, l) => match l with | .idle => none | l => some s!"{t}:{BreakerAcc.pcName l}")

def mqueueAcceptor : Acceptor (LockedAcc.AccSt (List Nat) Garr.Locked.QOp Garr.Locked.QRet) where
  init := fun _ => { g := { st := Garr.Locked.queueProg.init } }
  line := LockedAcc.processLine Garr.Locked.queueProg LockedAcc.parseQOp LockedAcc.showQRet
  pc := fun st t => LockedAcc.pcName (LockedAcc.getL st t)
  summary := fun st => s!"steps={st.steps} state={st.g.st}"
  stuck := fun _ => []

def madderAcceptor : Acceptor (LockedAcc.AccSt Int Garr.Locked.AOp (Option Int)) where
  init := fun _ => { g := { st := Garr.Locked.adderProg.init } }
  line := LockedAcc.processLine Garr.Locked.adderProg LockedAcc.parseAOp LockedAcc.showARet
  pc := fun st t => LockedAcc.pcName (LockedAcc.getL st t)
  summary := fun st => s!"steps={st.steps} state={st.g.st}"
  stuck := fun _ => []

def sadderAcceptor : Acceptor SimpleAdderAcc.AccSt where
  init := SimpleAdderAcc.initSt
  line := SimpleAdderAcc.processLine
  pc := fun st t => SimpleAdderAcc.pcName (SimpleAdderAcc.getL st t)
  summary := fun st => s!"steps={st.steps} applied={st.g.applied}"
  stuck := fun _ => []

def fineAcceptor : Acceptor FineAcc.AccSt where
  init := FineAcc.initSt
  line := FineAcc.processLine
  pc := FineAcc.pcName
  summary := FineAcc.summary
  stuck := FineAcc.stuck
  extraCov := fun st => st.extra
  extraSteps := fun st => st.nsilent

def poolAcceptor : Acceptor PoolAcc.AccSt where
  init := PoolAcc.initSt
  line := PoolAcc.processLine
  pc := fun _ _ => "act"
  summary := fun st => s!"steps={st.steps} candidates={st.ws.length} maxset={st.maxSet}"
  stuck := fun _ => []

def poolStepAcceptor : Acceptor PoolStepAcc.AccSt where
  init := PoolStepAcc.initSt
  line := PoolStepAcc.processLine
  pc := fun st t => PoolStepAcc.pcName (PoolStepAcc.getTh st t).l
  summary := PoolStepAcc.summary
  stuck := PoolStepAcc.stuck
  extraCov := fun st => st.extra
  extraSteps := fun st => st.nsilent

end Driver
