import Driver.Util
import Driver.QueueAcc
import Garr.Breaker.Fine
/-!
# Trace acceptor for the real `SlidingWindowCounter` against the full-stack model `Garr.Breaker.Fine`

Input (harness `conc window -kind fine`, `harness/conc/window.go`): one run =

    reset fine <window> <interval> <t0>          t0 = the constructor's ticker reading (first bucket's timestamp)
    inv  <tid> succ|fail|count                    harness, just before OnSuccess() / OnFailure() / Count()
    tick <tid> <i64>                              scripted ticker (layer k): the reading handed to the implementation
    ev   <tid> b ldp|casp|vst|vld <addr> …        window layer (`cur` load / CAS, `snapshot.Store`, `snapshot.Load`)
    ev   <tid> q ldp|casp|stp <addr> …            queue layer (reservoir: Offer / Iterator() / Next / Remove)
    ret  <tid> nil | <s>/<f>                      harness, right after the call returned (the returned *EventCount)
    end

## Logging / ordering convention (why the acceptor's step order is the real effect order)

* Every operation of a YIELDING layer (`b`, `q`, and the ticker `k`) is executed by the shim as
  `Point(); real sync/atomic operation; log line` (`harness/shim/vatomic/vatomic.go`: `on := pt(); v := atomic.…; lg(on, …)`;
  the ticker: `Point(); v := script; log`).  `Point` parks the logical thread BEFORE the access; when the token scheduler grants
  the thread its next slot the access is performed and logged, and the thread keeps running — alone, nobody else holds the
  token — up to the `Point` of its NEXT yielding access (or the end of its body).  So one scheduler slot of thread `t` is

      [yielding access N: effect, then its log line]  [everything thread-local after it]  [all NON-yielding shared accesses after it]

  and the order of the log lines of yielding accesses is exactly the order of their effects (token passing: one thread runs at a
  time; `sync/atomic` is sequentially consistent).
* The adder layer `a` is switched off (`Layers["a"] = false`): `bucket.add`, `bucket.success()`, `bucket.failure()` neither yield
  nor log.  Their effects therefore happen INSIDE the slot of the yielding access that precedes them in program order, after
  that access and before any access of any other thread.  The acceptor mirrors this: after the model step for a logged line of
  thread `t` it executes, greedily and before reading the next trace line, every model step of `t` whose pc is *silent*
  (`bsAdd`, `add`, `rollAdd` — the bucket increment — and `rdS`, `rdF` — the two counter reads of `trimAndSum`).  This is the
  model's own convention for thread-local queue actions ("executed together with the atomic access that precedes them", `qdo`),
  extended to the non-yielding adder accesses.  A silent step can never be the first step of a call (`call`, then `tick` precede).
* `inv` is logged in the slot of the gate `Point` that precedes every harness operation; `ret` is logged in the slot of the last
  yielding access of the call (after its silent successors), so a `ret` line always finds the model call finished, and the order of
  `ret` lines of rolls is the order of their `snapshot.Store`s.
* `Count()` (`snapshot.Load`, one `vld` of layer `b`) is not an action of the model (it has no effect); the acceptor treats it as an
  atomic read of the model's `snap` at the position of its `vld` line: the pointer loaded must be the pointer last stored (`vst`), the
  returned count must equal `g.w.snap`.

Matching.  Window-layer lines are matched against the window pc (`ldCur`: `ldp` of `cur` returning the current bucket; `cas`:
`casp` of `cur` from the bucket loaded to the fresh bucket, with the model's outcome; `store`: `vst` of `snapshot`), queue-layer lines
against the embedded `Garr.Queue.L` pc with `Driver.QueueAcc.expect` / `matchLoc` / `matchPV` (unchanged, imported).  Address
bijections, extended on first occurrence: the locations `cur` and `snapshot`; bucket pointers ↔ model bucket ids (pointers seen at
the window layer: the loaded current bucket, both CAS operands); queue locations, nodes, items and pending nodes as in `QueueAcc`.
The `ret` line of `OnSuccess` / `OnFailure` must equal the model's response (`nil`, or `s/f` of the `store` step).
-/
namespace Driver.FineAcc
open Garr Garr.Breaker Driver

structure AccSt where
  cfg : Fine.Cfg := ⟨1, 1⟩
  g : Fine.G := ⟨Fine.initW 0, Queue.init⟩
  ls : List (Nat × Fine.L) := []
  qa : QueueAcc.AccSt := {}                        -- queue-layer address bijections (only its address maps are used)
  curAddr : Option Nat := none                     -- address of the field `cur`
  snapAddr : Option Nat := none                    -- address of the field `snapshot`
  snapPtr : Option Nat := none                     -- pointer held by `snapshot` (`none`: the constructor's zero count, not seen yet)
  bucketAddr : List (Nat × Nat) := []              -- model bucket id ↦ implementation pointer
  cnt : List (Nat × Bool) := []                    -- threads inside `Count()`; `true` = the load has happened
  pendRet : List (Nat × String) := []
  extra : List String := []                        -- coverage names produced by the line just processed (silent pcs, ghost events)
  nsilent : Nat := 0                               -- silent model steps executed by the line just processed
  steps : Nat := 0
  rolls : Nat := 0

def idleL : Fine.L := ⟨.idle, .idle⟩
def getL (a : AccSt) (t : Nat) : Fine.L := (a.ls.lookup t).getD idleL
def setL (a : AccSt) (t : Nat) (l : Fine.L) : AccSt := { a with ls := (t, l) :: a.ls.filter (·.1 != t) }

def wpcName : Fine.WPc → String
  | .idle => "idle" | .tick _ => "tick" | .ldCur .. => "ldCur" | .bsAdd .. => "bsAdd" | .bsOffer _ => "bsOffer"
  | .add .. => "add" | .rollAdd .. => "rollAdd" | .cas .. => "cas" | .winOffer .. => "winOffer" | .mkIter .. => "mkIter"
  | .next _ => "next" | .remove .. => "remove" | .rdS .. => "rdS" | .rdF .. => "rdF" | .store _ => "store" | .head _ => "head"
  | .loseOffer _ => "loseOffer"

/-- the layer whose next logged access the window pc waits for -/
def layerOf : Fine.WPc → Option String
  | .ldCur .. | .cas .. | .store _ => some "b"
  | .bsOffer _ | .loseOffer _ | .winOffer .. | .mkIter .. | .next _ | .remove .. => some "q"
  | _ => none

/-- steps the implementation performs without a scheduling point (adder layer): executed with the preceding logged access -/
def isSilent : Fine.WPc → Bool
  | .bsAdd .. | .add .. | .rollAdd .. | .rdS .. | .rdF .. => true
  | _ => false

/-- coverage name of the step thread `t` is about to take (window pc, with the branch for `ldCur` / `cas`, with the queue pc
inside reservoir operations) -/
def pcName (a : AccSt) (t : Nat) : String :=
  if (a.cnt.lookup t).isSome then "count" else
  let l := getL a t
  match l.w with
  | .ldCur _ tk =>
    let c := a.g.w.cur
    if tk < a.g.w.ts c then "ldCur.back" else if tk < a.g.w.ts c + a.cfg.interval then "ldCur.same" else "ldCur.roll"
  | .cas _ old _ => if a.g.w.cur = old then "cas.win" else "cas.lose"
  | .bsOffer _ | .loseOffer _ | .winOffer .. | .mkIter .. | .next _ | .remove .. => s!"{wpcName l.w}/{QueueAcc.pcName l.q}"
  | w => wpcName w

def retStr : Option (Nat × Nat) → String
  | none => "nil"
  | some (s, f) => s!"{s}/{f}"

def evName : Fine.Ev → String
  | .added .. => "ev.added" | .swapped .. => "ev.swapped" | .lost _ => "ev.lost" | .linked .. => "ev.linked"
  | .iterStart .. => "ev.iterStart" | .cntS .. => "ev.cntS" | .cntF .. => "ev.cntF" | .removed .. => "ev.removed"
  | .rolled .. => "ev.rolled"

def applyObs (a : AccSt) (t : Nat) (obs : List Fine.Obs) : AccSt :=
  obs.foldl (fun acc o => match o with
    | .ret r => { acc with pendRet := (t, retStr r) :: acc.pendRet.filter (·.1 != t) }
    | .ev e => { acc with extra := evName e :: acc.extra, rolls := acc.rolls + (match e with | .rolled .. => 1 | _ => 0) }
    | .q (.lpRemove _ false) => { acc with extra := "q.removeOfDeadNode" :: acc.extra }
    | _ => acc) a

def doStep (a : AccSt) (t : Nat) (act : Fine.Act) : Option AccSt :=
  match Fine.step a.cfg t a.g (getL a t) act with
  | none => none
  | some (g', l', obs) => some (applyObs (setL { a with g := g', steps := a.steps + 1 } t l') t obs)

/-- the silent successors of the access just replayed (at most two in a row: `rdS`, `rdF`) -/
def runSilent : Nat → AccSt → Nat → AccSt
  | 0, a, _ => a
  | fuel + 1, a, t =>
    let l := getL a t
    if isSilent l.w then
      match doStep a t .b with
      | some a' => runSilent fuel { a' with extra := wpcName l.w :: a'.extra, nsilent := a'.nsilent + 1 } t
      | none => a
    else a

/-- one logged step of thread `t` followed by its silent successors; branch coverage of the traversal's expiry test -/
def stepLogged (a : AccSt) (t : Nat) (act : Fine.Act) : Option AccSt :=
  let l := getL a t
  match doStep a t act with
  | none => none
  | some a1 =>
    let br : List String :=
      match l.w, (getL a1 t).w with
      | .next _, .remove .. => ["br.next.expired"]
      | .next _, .rdS .. => ["br.next.kept"]
      | .mkIter .., .store _ => ["br.iter.empty"]
      | _, _ => []
    some (runSilent 4 { a1 with extra := br ++ a1.extra } t)

def bindAddr (known : Option Nat) (addr : Nat) (others : List (Option Nat)) : Option Nat :=
  match known with
  | some x => if x == addr then some addr else none
  | none => if others.any (· == some addr) then none else some addr

/-- bucket pointer ↔ model bucket id -/
def matchBucket (a : AccSt) (b : Nat) (x : Nat) : Option AccSt :=
  match a.bucketAddr.lookup b with
  | some y => if x == y then some a else none
  | none => if x != 0 && !(a.bucketAddr.any (·.2 == x)) then some { a with bucketAddr := (b, x) :: a.bucketAddr } else none

def invAct (c : String) : Option Fine.Act :=
  if c == "succ" then some (.call true) else if c == "fail" then some (.call false) else none

def processLine (a0 : AccSt) (toks : List String) : Except String AccSt :=
  let a := { a0 with extra := [], nsilent := 0 }
  match toks with
  | ["inv", t, c] =>
    match t.toNat? with
    | none => .error "bad inv line"
    | some t =>
      if (a.cnt.lookup t).isSome then .error s!"invocation {c} while the model thread {t} is inside Count()" else
      if c == "count" then
        match (getL a t).w with
        | .idle => .ok { a with cnt := (t, false) :: a.cnt }
        | w => .error s!"invocation count not enabled at {wpcName w}"
      else match invAct c with
      | none => .error s!"unknown operation {c}"
      | some act =>
        match doStep a t act with
        | some a' => .ok a'
        | none => .error s!"invocation {c} not enabled at {wpcName (getL a t).w}"
  | ["tick", t, v] =>
    match t.toNat?, v.toInt? with
    | some t, some v =>
      match (getL a t).w with
      | .tick _ =>
        match stepLogged a t (.tick v) with
        | some a' => .ok a'
        | none => .error "tick not enabled"
      | w => .error s!"implementation read the ticker but the model thread {t} is at {wpcName w}"
    | _, _ => .error "bad tick line"
  | ["ev", t, layer, kind, addr, xa, xb, xr, _ln, _cp, ok] =>
    match t.toNat?, hexVal? addr, hexVal? xa, hexVal? xb, hexVal? xr with
    | some t, some addr, some xa, some xb, some xr =>
      match a.cnt.lookup t with
      | some loaded =>
        -- Count(): one atomic read of the snapshot
        if loaded then .error s!"Count() of thread {t} performed a second access ({layer} {kind})" else
        if layer != "b" || kind != "vld" then .error s!"at count: model expects vld on the snapshot, implementation did {layer} {kind}" else
        match bindAddr a.snapAddr addr [a.curAddr] with
        | none => .error "at count: location mismatch: model expects the snapshot"
        | some sa =>
          if xr == 0 || (a.snapPtr.isSome && a.snapPtr != some xr) then
            .error s!"at count: loaded pointer {toHex xr} is not the pointer stored last ({(a.snapPtr.map toHex).getD "initial"})"
          else
            .ok { a with snapAddr := some sa, snapPtr := some xr, cnt := (t, true) :: a.cnt.filter (·.1 != t), steps := a.steps + 1,
                         pendRet := (t, retStr (some a.g.w.snap)) :: a.pendRet.filter (·.1 != t) }
      | none =>
      let l := getL a t
      let here := pcName a t
      match layerOf l.w with
      | none => .error s!"implementation performed {layer} {kind} but the model thread {t} is at {wpcName l.w}"
      | some ly =>
        if ly != layer then .error s!"at {here}: model expects an access of layer {ly}, implementation did {layer} {kind}" else
        if layer == "b" then
          match l.w with
          | .ldCur .. =>
            if kind != "ldp" then .error s!"at {here}: model expects ldp on cur, implementation did {kind}" else
            match bindAddr a.curAddr addr [a.snapAddr] with
            | none => .error s!"at {here}: location mismatch: model expects cur"
            | some ca =>
              match matchBucket { a with curAddr := some ca } a.g.w.cur xr with
              | none => .error s!"at {here}: pointer value mismatch: model expects bucket {a.g.w.cur}"
              | some a1 =>
                match stepLogged a1 t .b with
                | some a2 => .ok a2
                | none => .error "model step not enabled"
          | .cas _ old nw =>
            if kind != "casp" then .error s!"at {here}: model expects casp on cur, implementation did {kind}" else
            if (a.g.w.cur == old) != (ok == "1") then .error s!"at {here}: cas outcome: model {a.g.w.cur == old} impl {ok}" else
            match bindAddr a.curAddr addr [a.snapAddr] with
            | none => .error s!"at {here}: location mismatch: model expects cur"
            | some ca =>
              match (matchBucket { a with curAddr := some ca } old xa).bind (fun a1 => matchBucket a1 nw xb) with
              | none => .error s!"at {here}: pointer value mismatch: model expects cas(bucket {old} -> fresh bucket {nw})"
              | some a1 =>
                match stepLogged a1 t .b with
                | some a2 => .ok a2
                | none => .error "model step not enabled"
          | .store _ =>
            if kind != "vst" then .error s!"at {here}: model expects vst on the snapshot, implementation did {kind}" else
            match bindAddr a.snapAddr addr [a.curAddr] with
            | none => .error s!"at {here}: location mismatch: model expects the snapshot"
            | some sa =>
              if xa == 0 || a.snapPtr == some xa then .error s!"at {here}: the stored count is not a fresh object" else
              match stepLogged { a with snapAddr := some sa, snapPtr := some xa } t .b with
              | some a2 => .ok a2
              | none => .error "model step not enabled"
          | _ => .error "internal: layer b"
        else
          -- queue layer: the embedded queue pc, matched exactly as the queue acceptor does
          match QueueAcc.expect a.g.q l.q with
          | none => .error s!"at {here}: the embedded queue operation is between calls but the implementation performed {kind}"
          | some e =>
            if e.kind != kind then .error s!"at {here}: model expects {e.kind} on {repr e.loc}, implementation did {kind}" else
            if kind == "casp" && e.ok != (ok == "1") then .error s!"at {here}: cas outcome: model {e.ok} impl {ok}" else
            match QueueAcc.matchLoc a.qa e.loc addr with
            | none => .error s!"at {here}: location mismatch: model expects {repr e.loc}"
            | some q1 =>
            match (if kind == "ldp" then QueueAcc.matchPV q1 t e.r xr
                   else if kind == "casp" then (QueueAcc.matchPV q1 t e.a xa).bind (fun q2 => QueueAcc.matchPV q2 t e.b xb)
                   else QueueAcc.matchPV q1 t e.a xa) with
            | none => .error s!"at {here}: pointer value mismatch: model expects {repr e}"
            | some q2 =>
              -- on a successful link the pending node becomes node position n
              let q3 := match l.q, e.ok with
                | .o2 _ _ _, true =>
                  match q2.pendAddr.lookup t with
                  | some x => { q2 with nodeAddr := (a.g.q.n, x) :: q2.nodeAddr, pendAddr := q2.pendAddr.filter (·.1 != t) }
                  | none => q2
                | _, _ => q2
              match stepLogged { a with qa := q3 } t .q with
              | some a2 => .ok a2
              | none => .error "model step not enabled"
    | _, _, _, _, _ => .error "bad ev line"
  | ["ret", t, v] =>
    match t.toNat? with
    | none => .error "bad ret line"
    | some t =>
      match a.pendRet.lookup t with
      | none =>
        .error s!"implementation returned {v} but the model call of thread {t} is at {pcName a t}"
      | some r =>
        if r == v then .ok { a with pendRet := a.pendRet.filter (·.1 != t), cnt := a.cnt.filter (·.1 != t) }
        else .error s!"return value: model {r} impl {v}"
  | _ => .error "bad line"

def initSt (toks : List String) : AccSt :=
  match toks with
  | [_name, w, iv, t0] =>
    match w.toInt?, iv.toInt?, t0.toInt? with
    | some w, some iv, some t0 => { cfg := ⟨w, iv⟩, g := ⟨Fine.initW t0, Queue.init⟩ }
    | _, _, _ => {}
  | _ => {}

def summary (a : AccSt) : String :=
  s!"steps={a.steps} buckets={a.g.w.nb} cur={a.g.w.cur} nodes={a.g.q.n} rolls={a.rolls} snap={retStr (some a.g.w.snap)} reservoir={a.g.reservoir} table={a.g.w.table}"

def stuck (a : AccSt) : List String :=
  a.ls.filterMap (fun (t, l) => match l.w with | .idle => none | w => some s!"{t}:{wpcName w}")

end Driver.FineAcc
