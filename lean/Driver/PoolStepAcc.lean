import Driver.Util
import Garr.Pool.Model
/-!
Step-level trace acceptor for the worker pool.  The instrumented copy of `worker-pool/pool.go` (harness/poolstep: channels, select, go,
timers, context cancellation rewritten to `garrshim/vchan`; `sync` / `sync/atomic` to the cooperative shims) logs one line per
synchronisation operation.  Every line of a logical thread is replayed against `Garr.Pool.step P` for that thread:

* the program counter of the model thread determines which KIND of operation may come next (table `expects`);
* the `Act` is derived from the line (`tau`, `choose k`, `callDo c`, `beFixed`, `finish u`, `advance d`, …) and must be enabled;
* every value the line carries must agree with the model state (state word loaded, CAS outcome, counter after an Add, WaitGroup
  counter, task received, `ok` flag, result kind sent, deadline of a timer, return value).

Where the model performs in ONE step what the code does in several operations, the extra operations are *stutter lines*: they are
checked (kind, operands) against an expectation queue of the thread but take no model step:
`go` statements after the `wg.Add` (`.dspawn`, `.st1`), the result send after a `select` case on a done context (`selCase` sends in the
same step), `stopTimer` after an expanded worker's receive, the executor's start after the receive (`runTask` counts it in the same
step), `ret` lines (the model returns with the last operation), a fixed worker's receive of `!ok` (the model's `.w0` step is the
`wg.Done()` that follows; the guard `q = [] ∧ closed` is checked at the receive and is stable), an expanded worker's `begin` and result
send (the model's `beExp` / `.esend` steps are taken at `NewTimer` / `timer.Reset`, where the deadline is fixed).
-/
namespace Driver.PoolStepAcc
open Garr.Pool Driver

inductive Exp
  | go (name : String) | fsend (u : Nat) (r : String) | tstop | trecv | xstart (u : Nat) | ret (v : String) | exit
deriving Repr, BEq

def Exp.str : Exp → String
  | .go n => s!"go {n}" | .fsend u r => s!"result send of task {u} kind {r}" | .tstop => "timer.Stop" | .trecv => "<-timer.C"
  | .xstart u => s!"executor of task {u} starts" | .ret v => s!"return {v}" | .exit => "goroutine exit"

structure Th where
  l : L := .idle
  pend : List Exp := []
  pre : Nat := 0        -- 1: fixed worker received !ok; 2: expanded worker has sent its result; 3: expanded worker has begun
  kind : Nat := 0       -- 0 client / environment, 1 spawned fixed worker, 2 spawned expanded worker (until it has begun)

structure AccSt where
  P : Params := ⟨1, 0, 1⟩
  g : G := {}
  ths : List (Nat × Th) := []
  aState : Option Nat := none
  aExp : Option Nat := none
  aLock : Option Nat := none
  aWg : Option Nat := none
  steps : Nat := 0
  extra : List String := []
  nsilent : Nat := 0
  stutters : Nat := 0

def getTh (a : AccSt) (t : Nat) : Th := (a.ths.lookup t).getD {}
def setTh (a : AccSt) (t : Nat) (th : Th) : AccSt := { a with ths := (t, th) :: a.ths.filter (·.1 != t) }

def pcName : L → String
  | .idle => "idle" | .d1 _ => "d1" | .d2 _ => "d2" | .d3 _ => "d3" | .dsel _ => "dsel" | .dres _ => "dres" | .dspawn _ => "dspawn"
  | .dundo _ => "dundo" | .push _ => "push" | .d9 _ => "d9" | .t1 _ => "t1" | .t2 _ => "t2" | .t3 _ b => if b then "t3.locked" else "t3.unlocked"
  | .tsel _ => "tsel" | .t9 _ _ => "t9" | .w0 => "w0" | .wexec _ => "wexec" | .wsend _ => "wsend" | .wdone => "wdone"
  | .e0 _ => "e0" | .eexec _ => "eexec" | .esend _ => "esend" | .eexit => "eexit" | .eexit2 => "eexit2"
  | .st0 => "st0" | .st0c => "st0c" | .st1 => "st1" | .st2 => "st2"
  | .sp0 => "sp0" | .sp1 => "sp1" | .sp2 => "sp2" | .sp3a => "sp3a" | .sp3b => "sp3b" | .sp3c => "sp3c" | .sp3d => "sp3d" | .sp4 => "sp4"
  | .sp5 => "sp5" | .sp5s _ => "sp5s" | .exited => "exited" | .panicked => "panicked"

/-- table pc ↦ the kind of operation the code performs at this point -/
def expects : L → String
  | .idle => "an invocation / environment action / goroutine begin"
  | .d1 _ | .st0 => "submitLock.RLock"
  | .d2 _ | .t2 _ => "atomic load of state"
  | .d3 _ | .t3 _ _ | .sp5s _ => "send of the pool-context error on the task's result channel"
  | .dsel _ => "select { case queue <- t; default }"
  | .dres _ => "atomic Add(&expanded, +1)"
  | .dspawn _ => "wg.Add(1) (then go expandedWorker)"
  | .dundo _ => "atomic Add(&expanded, -1)"
  | .push _ => "select { <-p.ctx.Done(); <-t.ctx.Done(); queue <- t }"
  | .d9 _ | .t9 _ _ | .st2 => "submitLock.RUnlock"
  | .t1 _ => "submitLock.TryRLock"
  | .tsel _ => "select { <-p.ctx.Done(); <-t.ctx.Done(); queue <- t; default }"
  | .w0 => "receive from the queue (range) / wg.Done after the queue is closed"
  | .wexec _ | .eexec _ => "the executor passes its gate"
  | .wsend _ => "send of the executor's result"
  | .wdone => "goroutine exit"
  | .e0 _ => "select { task, ok := <-queue; <-timer.C }"
  | .esend _ => "send of the executor's result, then timer.Reset"
  | .eexit => "wg.Done"
  | .eexit2 => "atomic Add(&expanded, -1)"
  | .st0c => "CAS(&state, 0, 1)"
  | .st1 => "wg.Add(NumberWorker) (then go worker × NumberWorker)"
  | .sp0 => "CAS(&state, 0, 2)"
  | .sp1 => "CAS(&state, 1, 2)"
  | .sp2 => "cancel of the pool context"
  | .sp3a => "submitLock.Lock (announce)"
  | .sp3b => "submitLock.Lock (acquire)"
  | .sp3c => "close(queue)"
  | .sp3d => "submitLock.Unlock"
  | .sp4 => "wg.Wait passing"
  | .sp5 => "receive from the closed queue (range)"
  | .exited => "nothing (the goroutine has exited)"
  | .panicked => "nothing (the goroutine has panicked)"

def s32 (x : Nat) : Int := if x ≥ 2147483648 then (x : Int) - 4294967296 else (x : Int)

def ctxOf (s : String) : Option CtxKind :=
  if s == "pool" then some .pool else if s == "own" then some .own else if s == "never" then some .never else none

def bind (cur : Option Nat) (addr : Nat) : Option (Option Nat) :=
  match cur with
  | none => some (some addr)
  | some x => if x == addr then some cur else none

/-- the error identity the code sends after `select` case k of `push` / `TryDo` -/
def errOf (g : G) (u k : Nat) : String :=
  if k == 0 then "canceled" else (match (g.task u).ctx with | .own => "taskerr" | _ => "canceled")

def bump (a : AccSt) (isEv : Bool) (name : String) (plain : String) : AccSt :=
  -- (`ev` lines are counted by the generic loop under the plain pc name; a branch name is recorded in addition)
  if isEv then { a with steps := a.steps + 1, extra := if name == plain then a.extra else name :: a.extra } else { a with steps := a.steps + 1, extra := name :: a.extra, nsilent := a.nsilent + 1 }

def describe (toks : List String) : String := " ".intercalate (toks.drop 2 |>.take 3)

/-- one trace line of thread `t` whose expectation queue is empty: a model step (or one of the three pre-step stutters) -/
def stepLine (a : AccSt) (t : Nat) (th : Th) (toks : List String) : Except String AccSt := do
  let l := th.l
  let isEv := toks.head? == some "ev"
  let wrong : Except String AccSt :=
    .error s!"at {pcName l}: the model expects {expects l}; the implementation did `{describe toks}`"
  -- run the model step; `name` is the coverage name
  let run (act : Act) (name : String := pcName l) : Except String (AccSt × G × L) :=
    match step a.P t a.g l act with
    | none => .error s!"at {pcName l}: model step {reprStr act} is not enabled in the model state (q={a.g.q} closed={a.g.closed} state={a.g.state} ctxDone={a.g.ctxDone} readers={a.g.readers} writer={a.g.writer} wpending={a.g.wpending} wg={a.g.wg} expanded={a.g.expanded} now={a.g.now}); the implementation did `{describe toks}`"
    | some (g', l', _) => .ok (bump { a with g := g' } isEv name (pcName l), g', l')
  let fin (a' : AccSt) (l' : L) (pend : List Exp := []) (pre : Nat := 0) : Except String AccSt :=
    .ok (setTh a' t { th with l := l', pend := pend, pre := pre })
  let chk (c : Bool) (msg : String) : Except String Unit := if c then .ok () else .error s!"at {pcName l}: {msg}"
  -- shim events with their addresses
  let lockOp (kind : String) : Option Nat := match toks with
    | ["ev", _, "m", k, addr, _, _, _, _, _, _] => if k == kind then hexVal? addr else none
    | _ => none
  let withLock (kind : String) (k : AccSt → Except String AccSt) : Except String AccSt :=
    match lockOp kind with
    | none => wrong
    | some addr => match bind a.aLock addr with
      | none => .error s!"at {pcName l}: lock operation on an unknown RWMutex"
      | some b => k { a with aLock := b }
  let wgOp : Option (Nat × Int × Int) := match toks with       -- addr, delta, counter after
    | ["ev", _, "m", "wgadd", addr, d, _, r, _, _, _] => match hexVal? addr, hexVal? d, hexVal? r with
      | some addr, some d, some r => some (addr, s32 d, s32 r) | _, _, _ => none
    | _ => none
  let atomOp (kind : String) : Option (Nat × Nat × Nat × Nat × Bool) := match toks with
    | ["ev", _, "p", k, addr, xa, xb, xr, _, _, ok] => if k != kind then none else
      match hexVal? addr, hexVal? xa, hexVal? xb, hexVal? xr with
      | some addr, some xa, some xb, some xr => some (addr, xa, xb, xr, ok == "1") | _, _, _, _ => none
    | _ => none
  let loadState (next : AccSt → G → L → Except String AccSt) : Except String AccSt :=
    match atomOp "ldu32" with
    | none => wrong
    | some (addr, _, _, r, _) => do
      let some b := bind a.aState addr | .error s!"at {pcName l}: load of an unknown location"
      chk (r == a.g.state) s!"state loaded: model {a.g.state}, implementation {r}"
      let (a1, g', l') ← run .tau
      next { a1 with aState := b } g' l'
  let casState (old new : Nat) (next : AccSt → G → L → Except String AccSt) : Except String AccSt :=
    match atomOp "casu32" with
    | none => wrong
    | some (addr, xa, xb, _, ok) => do
      let some b := bind a.aState addr | .error s!"at {pcName l}: CAS on an unknown location"
      chk (xa == old && xb == new) s!"CAS operands: model ({old},{new}), implementation ({xa},{xb})"
      chk (ok == (a.g.state == old)) s!"CAS outcome: model {a.g.state == old} (state {a.g.state}), implementation {ok}"
      let (a1, g', l') ← run .tau
      next { a1 with aState := b } g' l'
  let addExp (delta : Int) (next : AccSt → G → L → Except String AccSt) : Except String AccSt :=
    match atomOp "add32" with
    | none => wrong
    | some (addr, xa, _, r, _) => do
      let some b := bind a.aExp addr | .error s!"at {pcName l}: Add on an unknown location"
      chk (s32 xa == delta) s!"Add delta: model {delta}, implementation {s32 xa}"
      chk (s32 r == a.g.expanded + delta) s!"expanded after the Add: model {a.g.expanded + delta}, implementation {s32 r}"
      let (a1, g', l') ← run .tau
      next { a1 with aExp := b } g' l'
  let wgAdd (delta : Int) (next : AccSt → G → L → Except String AccSt) : Except String AccSt :=
    match wgOp with
    | none => wrong
    | some (addr, d, r) => do
      let some b := bind a.aWg addr | .error s!"at {pcName l}: operation on an unknown WaitGroup"
      chk (d == delta) s!"WaitGroup delta: model {delta}, implementation {d}"
      chk (r == a.g.wg + delta) s!"WaitGroup counter after the Add: model {a.g.wg + delta}, implementation {r}"
      let (a1, g', l') ← run .tau
      next { a1 with aWg := b } g' l'
  let fsendIs (u : Nat) (r : String) : Bool := toks.drop 2 == ["fsend", toString u, r]
  -- the three-way select shared by push and TryDo
  let selComm (u : Nat) (retOf : Nat → L → List Exp) : Except String AccSt :=
    match toks with
    | ["ch", _, "sel", ks, "done"] => do
      let some k := ks.toNat? | wrong
      chk (k < 2) s!"select case {k} is not a Done() case in the model"
      let (a1, _, l') ← run (.choose k) s!"{pcName l}.{k}"
      fin a1 l' (.fsend u (errOf a.g u k) :: retOf k l')
    | ["ch", _, "sel", "2", "send", c, v] => do
      chk (c == "0") "send on a channel that is not the task queue"
      chk (v == toString u) s!"task sent: model {u}, implementation {v}"
      let (a1, _, l') ← run (.choose 2) s!"{pcName l}.2"
      chk (l' != .panicked) "the model panics here (send on the closed queue)"
      fin a1 l' (retOf 2 l')
    | ["ch", _, "sel", "2", "panic", "send"] => do
      let (a1, _, l') ← run (.choose 2) s!"{pcName l}.2panic"
      chk (l' == .panicked) "the implementation panics (send on closed channel), the model does not"
      fin a1 l'
    | _ => wrong
  match l, toks with
  -- ---------------------------------------------------------------- idle: invocations, environment, goroutine start
  | .idle, ["inv", _, op, c, _api] =>
    match ctxOf c with
    | none => .error "bad context kind"
    | some c => do
      chk (th.kind == 0 && th.pre == 0) "invocation by a worker goroutine"
      let (a1, _, l') ← run (if op == "Do" then .callDo c else if op == "TryDo" then .callTry c else .tau) s!"call{op}"
      fin a1 l'
  | .idle, ["inv", _, op] => do
    chk (th.kind == 0 && th.pre == 0) "invocation by a worker goroutine"
    let (a1, _, l') ← run (if op == "Start" then .callStart else if op == "Stop" then .callStop else .tau) s!"call{op}"
    fin a1 l'
  | .idle, ["env", _, what, n] => do
    let some n := n.toNat? | .error "bad env line"
    let act ← (if what == "finish" then .ok (Act.finish n) else if what == "canceltask" then .ok (Act.cancelTask n)
               else if what == "advance" then .ok (Act.advance n) else .error "bad env line")
    chk (what == "advance" || n < a.g.tasks.length) s!"environment action on task {n}, which the model does not know"
    chk (what != "canceltask" || (a.g.task n).ctx == .own) s!"task {n} has no context of its own"
    let (a1, _, l') ← run act s!"env.{what}"
    fin a1 l'
  | .idle, ["env", _, "cancelparent"] => do
    let (a1, _, l') ← run .cancelParent "env.cancelparent"
    fin a1 l'
  | .idle, ["ch", _, "begin"] =>
    if th.kind == 1 then do
      let (a1, _, l') ← run .beFixed "beFixed"
      fin a1 l'
    else if th.kind == 2 && th.pre == 0 then do
      chk (0 < a.g.spawnExp) "an expanded worker begins but the model has none spawned"
      .ok (setTh { a with stutters := a.stutters + 1 } t { th with pre := 3 })
    else wrong
  | .idle, ["ch", _, "tnew", _, dl] => do
    chk (th.kind == 2 && th.pre == 3) "NewTimer by a thread that is not a starting expanded worker"
    let (a1, _, l') ← run .beExp "beExp"
    chk (some l' == dl.toNat?.map L.e0) s!"timer deadline: model {reprStr l'}, implementation {dl}"
    fin a1 l'
  -- ---------------------------------------------------------------- Do
  | .d1 _, _ => withLock "rlock" fun a => do let (a1, _, l') ← run .tau; fin { a1 with aLock := a.aLock } l'
  | .d2 _, _ => loadState fun a1 _ l' => fin a1 l'
  | .d3 u, _ => do
    chk (fsendIs u "canceled") s!"the model expects {expects l} (task {u}); the implementation did `{describe toks}`"
    let (a1, _, l') ← run .tau; fin a1 l'
  | .dsel u, ["ch", _, "sel", "0", "send", c, v] => do
    chk (c == "0" && v == toString u) s!"task sent: model {u} on the queue, implementation {v} on channel {c}"
    let (a1, _, l') ← run .tau "dsel.send"
    chk (l' == .d9 u) s!"the implementation's select sent the task, the model goes to {pcName l'} (queue {a.g.q}, closed {a.g.closed})"
    fin a1 l'
  | .dsel u, ["ch", _, "sel", "d", "default"] => do
    let (a1, _, l') ← run .tau "dsel.default"
    chk (l' == .dres u) s!"the implementation's select took default, the model goes to {pcName l'} (queue {a.g.q}, closed {a.g.closed})"
    fin a1 l'
  | .dsel _, ["ch", _, "sel", "0", "panic", "send"] => do
    let (a1, _, l') ← run .tau "dsel.panic"
    chk (l' == .panicked) "the implementation panics (send on closed channel), the model does not"
    fin a1 l'
  | .dres _, _ => addExp 1 fun a1 _ l' => fin a1 l'
  | .dspawn _, _ => wgAdd 1 fun a1 _ l' => fin a1 l' [.go "expandedWorker"]
  | .dundo _, _ => addExp (-1) fun a1 _ l' => fin a1 l'
  | .push u, _ => selComm u fun _ _ => []
  | .d9 _, _ => withLock "runlock" fun a => do let (a1, _, l') ← run .tau; fin { a1 with aLock := a.aLock } l' [.ret "unit"]
  -- ---------------------------------------------------------------- TryDo
  | .t1 u, _ =>
    match lockOp "rlock", lockOp "tryrlock-fail" with
    | some addr, _ => do
      let some b := bind a.aLock addr | .error "lock operation on an unknown RWMutex"
      let (a1, _, l') ← run .tau "t1.ok"
      chk (l' == .t2 u) s!"TryRLock succeeded, in the model it fails (writer={a.g.writer} wpending={a.g.wpending})"
      fin { a1 with aLock := b } l'
    | _, some addr => do
      let some b := bind a.aLock addr | .error "lock operation on an unknown RWMutex"
      let (a1, _, l') ← run .tau "t1.fail"
      chk (l' == .t3 u false) s!"TryRLock failed, in the model it succeeds (writer={a.g.writer} wpending={a.g.wpending})"
      fin { a1 with aLock := b } l'
    | _, _ => wrong
  | .t2 _, _ => loadState fun a1 _ l' => fin a1 l'
  | .t3 u locked, _ => do
    chk (fsendIs u "canceled") s!"the model expects {expects l} (task {u}); the implementation did `{describe toks}`"
    let (a1, _, l') ← run .tau; fin a1 l' (if locked then [] else [.ret "false"])
  | .tsel _, ["ch", _, "sel", "d", "default"] => do
    let (a1, _, l') ← run (.choose 3) "tsel.default"; fin a1 l'
  | .tsel u, _ => selComm u fun _ _ => []
  | .t9 _ r, _ => withLock "runlock" fun a => do let (a1, _, l') ← run .tau; fin { a1 with aLock := a.aLock } l' [.ret (toString r)]
  -- ---------------------------------------------------------------- fixed worker
  | .w0, ["ch", _, "recv", c, v, ok] => do
    chk (th.pre == 0 && c == "0") "unexpected receive"
    if ok == "1" then
      let (a1, _, l') ← run .tau "w0.task"
      match l' with
      | .wexec u => do
        chk (v == toString u) s!"task received: model {u}, implementation {v}"
        fin a1 l' [.xstart u]
      | _ => .error s!"at w0: the implementation received task {v}, the model's queue is {a.g.q} (closed={a.g.closed})"
    else do
      chk (a.g.q.isEmpty && a.g.closed) s!"receive reported a closed and drained queue; model queue {a.g.q}, closed={a.g.closed}"
      .ok (setTh { a with stutters := a.stutters + 1 } t { th with pre := 1 })
  | .w0, ["ev", _, "m", "wgadd", _, _, _, _, _, _, _] => do
    chk (th.pre == 1) "wg.Done before the range loop has ended"
    wgAdd (-1) fun a1 _ l' => do
      chk (l' == .wdone) "model did not leave the range loop"
      fin a1 l'
  | .wexec u, ["x", _, "end", v] => do
    chk (v == toString u) s!"executor of task {v} ends, model expects {u}"
    let (a1, _, l') ← run .tau; fin a1 l'
  | .wsend u, _ => do
    chk (fsendIs u s!"val:{u}") s!"the model expects {expects l} (task {u}); the implementation did `{describe toks}`"
    let (a1, _, l') ← run .tau; fin a1 l'
  | .wdone, ["ch", _, "exit"] => do let (a1, _, l') ← run .tau; fin a1 l'
  -- ---------------------------------------------------------------- expanded worker
  | .e0 _, ["ch", _, "sel", "0", "recv", c, v, ok] => do
    chk (c == "0") "receive from a channel that is not the task queue"
    let (a1, _, l') ← run (.choose 0) (if ok == "1" then "e0.task" else "e0.closed")
    match l' with
    | .eexec u => do
      chk (ok == "1" && v == toString u) s!"task received: model {u}, implementation {v} ok={ok}"
      fin a1 l' [.tstop, .xstart u]
    | .eexit => do
      chk (ok == "0") s!"the implementation received task {v}, the model's queue is closed and empty"
      fin a1 l' [.tstop]
    | _ => .error "unexpected model successor"
  | .e0 _, ["ch", _, "sel", "1", "timer", _] => do
    let (a1, _, l') ← run (.choose 1) "e0.timer"; fin a1 l'
  | .eexec u, ["x", _, "end", v] => do
    chk (v == toString u) s!"executor of task {v} ends, model expects {u}"
    let (a1, _, l') ← run .tau; fin a1 l'
  | .esend u, ["ch", _, "fsend", _, _] => do
    chk (th.pre == 0 && fsendIs u s!"val:{u}") s!"the model expects {expects l} (task {u}); the implementation did `{describe toks}`"
    chk ((sendRes a.g u .val).isSome) s!"the result channel of task {u} is full in the model"
    .ok (setTh { a with stutters := a.stutters + 1 } t { th with pre := 2 })
  | .esend _, ["ch", _, "treset", _, dl, _] => do
    chk (th.pre == 2) "timer.Reset before the result was sent"
    let (a1, _, l') ← run .tau
    chk (some l' == dl.toNat?.map L.e0) s!"timer deadline: model {reprStr l'}, implementation {dl}"
    fin a1 l'
  | .eexit, _ => wgAdd (-1) fun a1 _ l' => fin a1 l'
  | .eexit2, _ => addExp (-1) fun a1 _ l' => fin a1 l' [.exit]
  -- ---------------------------------------------------------------- Start
  | .st0, _ => withLock "rlock" fun a => do let (a1, _, l') ← run .tau; fin { a1 with aLock := a.aLock } l'
  | .st0c, _ => casState 0 1 fun a1 _ l' => fin a1 l'
  | .st1, _ => wgAdd a.P.nworker fun a1 _ l' => fin a1 l' (List.replicate a.P.nworker (.go "worker"))
  | .st2, _ => withLock "runlock" fun a => do let (a1, _, l') ← run .tau; fin { a1 with aLock := a.aLock } l' [.ret "unit"]
  -- ---------------------------------------------------------------- Stop
  | .sp0, _ => casState 0 2 fun a1 _ l' => fin a1 l'
  | .sp1, _ => casState 1 2 fun a1 _ l' => fin a1 l' (if l' == .idle then [.ret "unit"] else [])
  | .sp2, ["ch", _, "cancel", "0"] => do let (a1, _, l') ← run .tau; fin a1 l'
  | .sp3a, _ => withLock "lockpend" fun a => do let (a1, _, l') ← run .tau; fin { a1 with aLock := a.aLock } l'
  | .sp3b, _ => withLock "lock" fun a => do let (a1, _, l') ← run .tau; fin { a1 with aLock := a.aLock } l'
  | .sp3c, ["ch", _, "close", "0"] => do
    let (a1, _, l') ← run .tau
    chk (l' == .sp3d) "the model panics here (close of the closed queue)"
    fin a1 l'
  | .sp3c, ["ch", _, "panic", "close"] => do
    let (a1, _, l') ← run .tau "sp3c.panic"
    chk (l' == .panicked) "the implementation panics (close of closed channel), the model does not"
    fin a1 l'
  | .sp3d, _ => withLock "unlock" fun a => do let (a1, _, l') ← run .tau; fin { a1 with aLock := a.aLock } l'
  | .sp4, ["ev", _, "m", "wgwait", addr, _, _, _, _, _, _] => do
    let some b := (hexVal? addr).bind (bind a.aWg) | .error "Wait on an unknown WaitGroup"
    let (a1, _, l') ← run .tau; fin { a1 with aWg := b } l'
  | .sp5, ["ch", _, "recv", c, v, ok] => do
    chk (c == "0") "unexpected receive"
    let (a1, _, l') ← run .tau (if ok == "1" then "sp5.task" else "sp5.end")
    match l' with
    | .sp5s u => do
      chk (ok == "1" && v == toString u) s!"task drained: model {u}, implementation {v} ok={ok}"
      fin a1 l'
    | _ => do
      chk (ok == "0") s!"the implementation drained task {v}, the model's queue is empty"
      fin a1 l' [.ret "unit"]
  | .sp5s u, _ => do
    chk (fsendIs u "canceled") s!"the model expects {expects l} (task {u}); the implementation did `{describe toks}`"
    let (a1, _, l') ← run .tau; fin a1 l'
  | _, _ => wrong

def matchPend (a : AccSt) (t : Nat) (th : Th) (e : Exp) (more : List Exp) (toks : List String) : Except String AccSt :=
  let pop (a' : AccSt := a) : Except String AccSt := .ok (setTh { a' with stutters := a'.stutters + 1 } t { th with pend := more })
  let bad : Except String AccSt :=
    .error s!"after {pcName th.l}'s predecessor step the model expects `{e.str}` next from thread {t}; the implementation did `{describe toks}`"
  match e, toks with
  | .go name, ["ch", _, "go", new, name'] =>
    match new.toNat? with
    | none => bad
    | some new =>
      if name != name' then bad else
      if (a.ths.lookup new).isSome then .error s!"go: thread id {new} already in use" else
      pop (setTh a new { kind := if name == "worker" then 1 else 2 })
  | .fsend u r, ["ch", _, "fsend", u', r'] => if u' == toString u && r' == r then pop else bad
  | .tstop, ["ch", _, "tstop", _, r] =>
    if r == "1" then pop else .ok (setTh { a with stutters := a.stutters + 1 } t { th with pend := .trecv :: more })
  | .trecv, ["ch", _, "trecv", _] => pop
  | .xstart u, ["x", _, "start", u'] => if u' == toString u then pop else bad
  | .ret v, ["ret", _, v'] => if v == v' then pop else .error s!"return value: model {v}, implementation {v'}"
  | .exit, ["ch", _, "exit"] => pop
  | _, _ => bad

/-- `quiescent`: the implementation has reached a state in which no logical thread can run.  Then no thread of the model may have an
enabled internal step either (and no stutter line may be outstanding): otherwise the implementation blocks where the model proceeds. -/
def checkQuiescent (a : AccSt) : Except String AccSt :=
  let bad := a.ths.filterMap fun (t, th) =>
    match th.pend with
    | e :: _ => some s!"thread {t} (after {pcName th.l}'s predecessor): the model expects `{e.str}`, the implementation is blocked"
    | [] =>
      match th.l with
      | .idle | .exited | .panicked => none
      | l =>
        if th.pre == 1 || th.pre == 2 then some s!"thread {t} at {pcName l}: blocked before {expects l}" else
        match [Act.tau, .choose 0, .choose 1, .choose 2, .choose 3].find? (fun act => (step a.P t a.g l act).isSome) with
        | some act => some s!"thread {t} at {pcName l}: the model can take step {reprStr act} ({expects l}), the implementation is blocked there"
        | none => none
  match bad with
  | [] => .ok a
  | b :: _ => .error s!"the implementation can make no step, the model can: {b}"

def processLine (a0 : AccSt) (toks : List String) : Except String AccSt :=
  let a := { a0 with extra := [], nsilent := 0 }
  match toks with
  | ["quiescent"] => checkQuiescent a
  | _ :: tS :: _ =>
    match tS.toNat? with
    | none => .error "bad line (thread id)"
    | some t =>
      let th := getTh a t
      match toks with
      | ["ch", _, "crash", msg] => .error s!"at {pcName th.l}: a goroutine of the implementation panicked: {msg}; the model has no such step"
      | _ =>
      match th.pend with
      | e :: more => matchPend a t th e more toks
      | [] => stepLine a t th toks
  | _ => .error "bad line"

def initSt (toks : List String) : AccSt :=
  match toks with
  | [_name, nw, lim, lt] =>
    match nw.toNat?, lim.toNat?, lt.toNat? with
    | some nw, some lim, some lt => { P := ⟨nw, lim, lt⟩ }
    | _, _, _ => {}
  | _ => {}

def summary (a : AccSt) : String :=
  let nt := a.g.tasks.length
  let ex := (a.g.tasks.map (·.exec)).foldl (· + ·) 0
  s!"steps={a.steps} stutters={a.stutters} tasks={nt} executed={ex} state={a.g.state} expanded={a.g.expanded} wg={a.g.wg} threads={a.ths.length} panics={a.g.panics}"

def stuck (a : AccSt) : List String :=
  a.ths.filterMap (fun (t, th) => match th.l with | .idle => none | .exited => none | l => some s!"{t}:{pcName l}")

end Driver.PoolStepAcc
