import Driver.Util
import Garr.Breaker.Conc
/-! Trace acceptor for the concurrent breaker + sliding window (breaker layer events, ticker readings, callbacks). -/
namespace Driver.BreakerAcc
open Garr Garr.Breaker Driver

inductive Loc | S | WC (w : Nat) | WS (w : Nat) | privWS
deriving Repr, BEq

inductive PV | obj (o : Nat) | bucket (b : Nat) | pend | any
deriving Repr, BEq

structure Ev where
  kind : String
  loc : Loc
  a : PV := .any
  b : PV := .any
  r : PV := .any
  ok : Bool := false
deriving Repr

/-- the breaker-layer access the next `.tau` step of `l` performs; `none` = the step is a ticker reading -/
def expect (g : CG) : L → Option Ev
  | .b0 _ => some { kind := "ldp", loc := .S, r := .obj g.cur }
  | .c3 o _ _ => some { kind := "casp", loc := .S, a := .obj o, b := .pend, ok := g.cur == o }
  | .w1 _ _ w _ => some { kind := "ldp", loc := .WC w, r := .bucket (g.win w).cur }
  | .w2 _ _ w _ b => some { kind := "casp", loc := .WC w, a := .bucket b, b := .pend, ok := (g.win w).cur == b }
  | .w3 _ _ w _ => some { kind := "vst", loc := .WS w }
  | .f2 o _ _ => some { kind := "casp", loc := .S, a := .obj o, b := .pend, ok := g.cur == o }
  | .h1s _ _ => some { kind := "vst", loc := .privWS }
  | .h3 _ o _ _ => some { kind := "casp", loc := .S, a := .obj o, b := .pend, ok := g.cur == o }
  | _ => none

def wantsTick : L → Bool
  | .c1 _ | .c2 _ _ | .w0 _ _ _ | .f1 _ _ | .h1 _ _ | .h2 _ _ => true
  | _ => false

def pcName : L → String
  | .idle => "idle" | .b0 c => s!"b0.{repr c}" | .c1 _ => "c1" | .c2 .. => "c2" | .c3 .. => "c3"
  | .w0 .. => "w0" | .w1 .. => "w1" | .w2 .. => "w2" | .w3 .. => "w3" | .f1 .. => "f1" | .f2 .. => "f2"
  | .h1 c _ => s!"h1.{repr c}" | .h1s .. => "h1s" | .h2 .. => "h2" | .h3 c .. => s!"h3.{repr c}"

structure AccSt where
  cfg : Config := ⟨.nan, 0, 1, 1, 2, 1, 1⟩
  g : CG := initG 0 0
  ls : List (Nat × L) := []
  locMap : List (Nat × Loc) := []
  objAddr : List (Nat × Nat) := []
  bucketAddr : List (Nat × Nat) := []
  pendPtr : List (Nat × Nat) := []       -- tid ↦ pointer of the fresh object it is trying to publish
  pendWS : List (Nat × Nat) := []        -- tid ↦ address of the private new window's snapshot
  pendRet : List (Nat × String) := []
  pendCb : List (Nat × List String) := []
  ghost : List String := []
  steps : Nat := 0

def getL (a : AccSt) (t : Nat) : L := (a.ls.lookup t).getD .idle
def setL (a : AccSt) (t : Nat) (l : L) : AccSt := { a with ls := (t, l) :: a.ls.filter (·.1 != t) }

def kindStr : Kind → String | .closed => "C" | .opn => "O" | .half => "H"

def bindLoc (a : AccSt) (loc : Loc) (addr : Nat) : Option AccSt :=
  match a.locMap.lookup addr with
  | some l => if l == loc then some a else none
  | none => if a.locMap.any (·.2 == loc) then none else some { a with locMap := (addr, loc) :: a.locMap }

def matchPV (a : AccSt) (t : Nat) (pv : PV) (x : Nat) : Option AccSt :=
  match pv with
  | .any => some a
  | .obj o =>
    match a.objAddr.lookup o with
    | some y => if x == y then some a else none
    | none => if x != 0 && !(a.objAddr.any (·.2 == x)) then some { a with objAddr := (o, x) :: a.objAddr } else none
  | .bucket b =>
    match a.bucketAddr.lookup b with
    | some y => if x == y then some a else none
    | none => if x != 0 && !(a.bucketAddr.any (·.2 == x)) then some { a with bucketAddr := (b, x) :: a.bucketAddr } else none
  | .pend =>
    if x != 0 && !(a.objAddr.any (·.2 == x)) && !(a.bucketAddr.any (·.2 == x))
    then some { a with pendPtr := (t, x) :: a.pendPtr.filter (·.1 != t) } else none

def cbStrs (o : Obs) : List String :=
  match o with
  | .cbState k => [s!"S:{kindStr k}", "N:0/0"]
  | .cbCount s f => [s!"N:{s}/{f}"]
  | .cbRejected => ["R"]
  | _ => []

def applyObs (a : AccSt) (t : Nat) (obs : List Obs) : AccSt :=
  obs.foldl (fun acc o => match o with
    | .ret r => { acc with pendRet := (t, match r with | none => "unit" | some b => toString b) :: acc.pendRet.filter (·.1 != t) }
    | .admitted o t1 => { acc with ghost := s!"{t}:admitted@{o}:{t1}" :: acc.ghost }
    | .transition o k => { acc with ghost := s!"{t}:{o}->{kindStr k}" :: acc.ghost }
    | .recorded .. => acc
    | .rolled w tk s f => { acc with ghost := s!"{t}:roll{w}@{tk}={s}/{f}" :: acc.ghost }
    | cb => { acc with pendCb := (t, ((acc.pendCb.lookup t).getD []) ++ cbStrs cb) :: acc.pendCb.filter (·.1 != t) }) a

def doStep (a : AccSt) (t : Nat) (act : Act) : Option AccSt :=
  match step a.cfg t a.g (getL a t) act with
  | none => none
  | some (g', l', obs) => some (applyObs (setL { a with g := g', steps := a.steps + 1 } t l') t obs)

def processLine (a : AccSt) (toks : List String) : Except String AccSt :=
  match toks with
  | ["inv", t, c] =>
    match t.toNat?, (if c == "can" then some Call.can else if c == "succ" then some Call.succ else if c == "fail" then some Call.fail else none) with
    | some t, some c =>
      match doStep a t (.call c) with
      | some a' => .ok a'
      | none => .error s!"invocation not enabled at {pcName (getL a t)}"
    | _, _ => .error "bad inv"
  | ["tick", t, v] =>
    match t.toNat?, v.toInt? with
    | some t, some v =>
      if !wantsTick (getL a t) then .error s!"implementation read the ticker but the model thread {t} is at {pcName (getL a t)}" else
      match doStep a t (.tick v) with
      | some a' => .ok a'
      | none => .error "tick not enabled"
    | _, _ => .error "bad tick"
  | ["cb", t, s] =>
    match t.toNat? with
    | none => .error "bad cb"
    | some t =>
      match (a.pendCb.lookup t).getD [] with
      | [] => .error s!"implementation notified {s} but the model expects no callback from thread {t} (at {pcName (getL a t)})"
      | x :: rest => if x == s then .ok { a with pendCb := (t, rest) :: a.pendCb.filter (·.1 != t) }
                     else .error s!"callback: model {x} impl {s}"
  | ["ev", t, _layer, kind, addr, xa, xb, xr, _ln, _cp, ok] =>
    match t.toNat?, hexVal? addr, hexVal? xa, hexVal? xb, hexVal? xr with
    | some t, some addr, some xa, some xb, some xr =>
      let l := getL a t
      match expect a.g l with
      | none => .error s!"implementation performed {kind} but the model thread {t} is at {pcName l}"
      | some e =>
        if e.kind != kind then .error s!"at {pcName l}: model expects {e.kind} on {repr e.loc}, implementation did {kind}" else
        if kind == "casp" && e.ok != (ok == "1") then .error s!"at {pcName l}: cas outcome: model {e.ok} impl {ok}" else
        let aLoc : Option AccSt := match e.loc with
          | .privWS => some { a with pendWS := (t, addr) :: a.pendWS.filter (·.1 != t) }
          | loc => bindLoc a loc addr
        match aLoc with
        | none => .error s!"at {pcName l}: location mismatch: model expects {repr e.loc}"
        | some a1 =>
        match (if kind == "ldp" then matchPV a1 t e.r xr
               else if kind == "casp" then (matchPV a1 t e.a xa).bind (fun a2 => matchPV a2 t e.b xb)
               else some a1) with
        | none => .error s!"at {pcName l}: pointer value mismatch: model expects {repr e}"
        | some a2 =>
          let nobj := a2.g.objs.length
          let nbk := a2.g.buckets.length
          let nwin := a2.g.wins.length
          match doStep a2 t .tau with
          | none => .error "model step not enabled"
          | some a3 =>
            -- bind freshly published objects
            let a4 := if a3.g.objs.length > nobj then
                match a3.pendPtr.lookup t with
                | some p => { a3 with objAddr := (nobj, p) :: a3.objAddr, pendPtr := a3.pendPtr.filter (·.1 != t) }
                | none => a3
              else a3
            let a5 := match l with
              | .w2 .. => if a4.g.buckets.length > nbk then
                  match a4.pendPtr.lookup t with
                  | some p => { a4 with bucketAddr := (nbk, p) :: a4.bucketAddr, pendPtr := a4.pendPtr.filter (·.1 != t) }
                  | none => a4
                else a4
              | _ => a4
            let a6 := if a5.g.wins.length > nwin then
                match a5.pendWS.lookup t with
                | some p => { a5 with locMap := (p, Loc.WS nwin) :: a5.locMap, pendWS := a5.pendWS.filter (·.1 != t) }
                | none => a5
              else a5
            .ok a6
    | _, _, _, _, _ => .error "bad ev line"
  | ["ret", t, v] =>
    match t.toNat? with
    | none => .error "bad ret"
    | some t =>
      if !((a.pendCb.lookup t).getD []).isEmpty then .error s!"implementation returned but the model still expects callbacks {(a.pendCb.lookup t).getD []}" else
      match a.pendRet.lookup t with
      | none => .error s!"implementation returned {v} but the model operation of thread {t} is at {pcName (getL a t)}"
      | some r => if r == v then .ok { a with pendRet := a.pendRet.filter (·.1 != t), pendPtr := a.pendPtr.filter (·.1 != t), pendWS := a.pendWS.filter (·.1 != t) }
                  else .error s!"return value: model {r} impl {v}"
  | _ => .error "bad line"

def initSt (toks : List String) : AccSt :=
  match toks with
  | [_name, thr, mr, tr, op, w, iv, t1, t2] =>
    match f64? thr, mr.toInt?, tr.toInt?, op.toInt?, w.toInt?, iv.toInt?, t1.toInt?, t2.toInt? with
    | some thr, some mr, some tr, some op, some w, some iv, some t1, some t2 =>
      { cfg := { thr := thr, minReq := mr, trial := tr, openW := op, window := w, interval := iv, listeners := 1 }, g := initG t1 t2 }
    | _, _, _, _, _, _, _, _ => {}
  | _ => {}

end Driver.BreakerAcc
