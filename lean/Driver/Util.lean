import Garr.Num.F64
/-! Driver glue: hex / decimal parsing, binary64 bit patterns ↔ `F64`. Trusted, validated differentially. -/
namespace Driver
open Garr

def hexVal? (s : String) : Option Nat :=
  if s.isEmpty then none else
  s.foldl (fun acc c =>
    match acc with
    | none => none
    | some a =>
      if c.isDigit then some (a * 16 + (c.toNat - '0'.toNat))
      else if 'a' ≤ c ∧ c ≤ 'f' then some (a * 16 + (c.toNat - 'a'.toNat + 10))
      else none) (some 0)

def hexDigit (d : Nat) : Char := if d < 10 then Char.ofNat (48 + d) else Char.ofNat (87 + d)

def toHex (n : Nat) : String := String.ofList ((Nat.toDigits 16 n))

/-- decode 64 raw bits -/
def f64OfBits (b : Nat) : F64 :=
  let neg : Bool := decide ((b / 2^63) % 2 = 1)
  let E : Nat := (b / 2^52) % 2048
  let F : Nat := b % 2^52
  if E = 2047 then (if F = 0 then .inf neg else .nan)
  else if E = 0 then .fin neg F (-1074)
  else .fin neg (2^52 + F) ((E : Int) - 1075)

def canonNaN : Nat := 0x7FF8000000000001

/-- encode a canonical value (all NaNs map to one pattern) -/
def bitsOfF64 : F64 → Nat
  | .nan => canonNaN
  | .inf neg => (if neg then 2^63 else 0) + 2047 * 2^52
  | .fin neg m e =>
    (if neg then 2^63 else 0) +
      (if m < 2^52 then m else ((e + 1075).toNat) * 2^52 + (m - 2^52))

def f64? (s : String) : Option F64 := (hexVal? s).map f64OfBits
def f64Hex (x : F64) : String := toHex (bitsOfF64 x)

def splitWs (s : String) : List String :=
  (s.trimAscii.toString.splitOn " ").filter (fun t => !t.isEmpty)

end Driver
