import Garr.Num.F64Bits
/-! Driver glue: hex / decimal parsing, binary64 bit patterns ↔ `F64`. Trusted, validated differentially. -/
namespace Driver
open Garr

def hexVal? (s : String) : Option Nat :=
  if s.isEmpty then none else
  s.foldl (fun acc c =>
    match acc with
    | none => none
    | some a =>
      if c.isDigit then some (a * 16 + (c.toNat - '0'.toNat))
      else if 'a' ≤ c ∧ c ≤ 'f' then some (a * 16 + (c.toNat - 'a'.toNat + 10))
      else none) (some 0)

def hexDigit (d : Nat) : Char := if d < 10 then Char.ofNat (48 + d) else Char.ofNat (87 + d)

def toHex (n : Nat) : String := String.ofList ((Nat.toDigits 16 n))

def f64OfBits (b : Nat) : F64 := F64.ofBits b
def bitsOfF64 (x : F64) : Nat := F64.toBits x

def f64? (s : String) : Option F64 := (hexVal? s).map f64OfBits
def f64Hex (x : F64) : String := toHex (bitsOfF64 x)

def splitWs (s : String) : List String :=
  (s.trimAscii.toString.splitOn " ").filter (fun t => !t.isEmpty)

end Driver
