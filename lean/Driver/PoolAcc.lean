import Std.Data.HashSet
import Driver.Util
import Garr.Pool.Model
/-!
Subset-construction acceptor for the worker pool: after each harness action the set of quiescent model
states reachable by internal steps is computed, and those matching the implementation's observation
(returned calls, per-task execution/result status, live worker goroutines, panics) are carried forward.
-/
namespace Driver.PoolAcc
open Garr.Pool Driver

deriving instance Ord for CtxKind
deriving instance Ord for L

structure World where
  g : G
  ths : List L            -- all live threads, sorted (anonymous)
  rets : List String      -- calls that have returned, sorted
deriving BEq, Hashable

def lLt (a b : L) : Bool := compare a b == .lt

def canon (w : World) : World :=
  { w with ths := (w.ths.filter (fun l => l != .idle && l != .exited)).mergeSort (fun a b => compare a b != .gt),
           rets := w.rets.mergeSort (fun a b => a ≤ b) }

def obsStr (o : Obs) : Option String :=
  match o with
  | .retDo u => some s!"do:{u}"
  | .retTry u b => some s!"try:{u}:{b}"
  | .retStop => some "stop"
  | .retStart => some "start"
  | .execStart _ => none

def internalActs : List Act := [.tau, .choose 0, .choose 1, .choose 2, .choose 3]

/-- all worlds reachable by ONE internal step -/
def succs (P : Params) (w : World) : List World :=
  let fromThreads := (List.range w.ths.length).flatMap (fun i =>
    match w.ths[i]? with
    | none => []
    | some l =>
      internalActs.filterMap (fun a =>
        match step P 0 w.g l a with
        | none => none
        | some (g', l', obs) =>
          some (canon { g := g', ths := w.ths.set i l', rets := w.rets ++ obs.filterMap obsStr })))
  let spawnF := match step P 0 w.g .idle .beFixed with
    | some (g', l', _) => [canon { w with g := g', ths := l' :: w.ths }] | none => []
  let spawnE := match step P 0 w.g .idle .beExp with
    | some (g', l', _) => [canon { w with g := g', ths := l' :: w.ths }] | none => []
  fromThreads ++ spawnF ++ spawnE

/-- quiescent worlds reachable from `ws` by internal steps (bounded exploration; `none` = budget exceeded) -/
partial def closure (P : Params) (ws : List World) : Option (List World) :=
  let rec go (frontier : List World) (seen : Std.HashSet World) (quiet : List World) (budget : Nat) : Option (List World) :=
    match frontier with
    | [] => some quiet
    | w :: rest =>
      if budget = 0 then none else
      let ss := succs P w
      if ss.isEmpty then go rest seen (w :: quiet) (budget - 1)
      else
        let (fr, sn) := ss.foldl (fun (acc : List World × Std.HashSet World) s =>
          if acc.2.contains s then acc else (s :: acc.1, acc.2.insert s)) (rest, seen)
        go fr sn quiet (budget - 1)
  let seen0 : Std.HashSet World := ws.foldl (fun s w => s.insert w) {}
  go ws seen0 [] 400000

def isWorker : L → Bool
  | .w0 | .wexec _ | .wsend _ | .wdone | .e0 _ | .eexec _ | .esend _ | .eexit | .eexit2 => true
  | _ => false

def resStr : Res → String | .val => "val" | _ => "err"

/-- canonical observation of a world, in the harness' format -/
def observe (w : World) : String :=
  let tasks := (List.range w.g.tasks.length).map (fun u =>
    let t := w.g.task u
    s!"{u}:{t.exec}:{if t.exec > 0 && !t.released then 1 else 0}:{String.intercalate "+" (t.results.map (fun _ => "?"))}")
  s!"rets=[{String.intercalate "," w.rets}] tasks=[{String.intercalate "," tasks}] workers={(w.ths.filter isWorker).length} panics={w.g.panics}"

structure AccSt where
  P : Params := ⟨1, 0, 1⟩
  ws : List World := []
  steps : Nat := 0
  maxSet : Nat := 0

def ctxOf (s : String) : Option CtxKind :=
  if s == "pool" then some .pool else if s == "own" then some .own else if s == "never" then some .never else none

/-- apply a harness action to every candidate world (a new thread for calls; environment actions on `.idle`) -/
def applyAct (P : Params) (ws : List World) (a : Act) : List World :=
  ws.filterMap (fun w =>
    match step P 0 w.g .idle a with
    | none => none
    | some (g', l', obs) => some (canon { g := g', ths := l' :: w.ths, rets := w.rets ++ obs.filterMap obsStr }))

def processLine (a : AccSt) (toks : List String) : Except String AccSt :=
  match toks with
  | ["act", "burst", n, c] =>
    match n.toNat?, ctxOf c with
    | some n, some c =>
      let ws1 := (List.range n).foldl (fun ws _ => applyAct a.P ws (.callDo c)) a.ws
      if ws1.isEmpty then .error "burst not enabled" else
      (match closure a.P ws1 with
       | none => .error "model exploration budget exceeded"
       | some q => .ok { a with ws := q.eraseDups, steps := a.steps + 1, maxSet := max a.maxSet q.length })
    | _, _ => .error "bad burst"
  | ["act", k, "ownc"] =>
    -- a submission whose own context is ALREADY done: the call and the cancellation happen before any step of the new thread
    let call : Option Act := if k == "do" then some (.callDo .own) else if k == "try" then some (.callTry .own) else none
    match call with
    | none => .error "bad act"
    | some call =>
      let ws1 := a.ws.filterMap (fun w =>
        match step a.P 0 w.g .idle call with
        | none => none
        | some (g', l', _) =>
          match step a.P 0 g' .idle (.cancelTask w.g.tasks.length) with
          | none => none
          | some (g'', _, _) => some (canon { g := g'', ths := l' :: w.ths, rets := w.rets }))
      if ws1.isEmpty then .error "action is not enabled in any candidate model state" else
      match closure a.P ws1 with
      | none => .error "model exploration budget exceeded"
      | some q => .ok { a with ws := q.eraseDups, steps := a.steps + 1, maxSet := max a.maxSet q.length }
  | "act" :: rest =>
    let act : Option Act := match rest with
      | ["do", c] => (ctxOf c).map Act.callDo
      | ["try", c] => (ctxOf c).map Act.callTry
      | ["start"] => some .callStart
      | ["stop"] => some .callStop
      | ["finish", u] => u.toNat?.map Act.finish
      | ["canceltask", u] => u.toNat?.map Act.cancelTask
      | ["cancelparent"] => some .cancelParent
      | ["advance", d] => d.toNat?.map Act.advance
      | _ => none
    match act with
    | none => .error "bad act"
    | some act =>
      let ws1 := applyAct a.P a.ws act
      if ws1.isEmpty then .error s!"action {rest} is not enabled in any candidate model state" else
      match closure a.P ws1 with
      | none => .error "model exploration budget exceeded"
      | some q => .ok { a with ws := q.eraseDups, steps := a.steps + 1, maxSet := max a.maxSet q.length }
  | "obs" :: rest =>
    let s := String.intercalate " " rest
    let keep := a.ws.filter (fun w => observe w == s)
    if keep.isEmpty then
      .error s!"observation matches none of the {a.ws.length} quiescent model states; e.g. model: {(a.ws.head?.map observe).getD "-"}"
    else .ok { a with ws := keep }
  | _ => .error "bad line"

def initSt (toks : List String) : AccSt :=
  match toks with
  | [_name, n, l, lt] =>
    let P : Params := ⟨n.toNat?.getD 1, l.toNat?.getD 0, lt.toNat?.getD 1⟩
    { P := P, ws := [canon { g := {}, ths := [], rets := [] }] }
  | _ => {}

end Driver.PoolAcc
