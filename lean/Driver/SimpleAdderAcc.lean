import Driver.Util
import Garr.Adder.Simple
/-! Trace acceptor for the simple adders (atomic, random-cell, atomic-float). -/
namespace Driver.SimpleAdderAcc
open Garr Garr.Adder Garr.Adder.Simple Driver

structure AccSt where
  P : Params := atomicP
  g : SG := { cells := [0] }
  ls : List (Nat × SL) := []
  locMap : List (Nat × Nat) := []      -- impl address ↦ cell index
  pendRet : List (Nat × String) := []
  steps : Nat := 0

def getL (a : AccSt) (t : Nat) : SL := (a.ls.lookup t).getD .idle
def setL (a : AccSt) (t : Nat) (l : SL) : AccSt := { a with ls := (t, l) :: a.ls.filter (·.1 != t) }

def pcName : SL → String
  | .idle => "idle" | .addDraw _ => "addDraw" | .addAt .. => "addAt" | .addLd .. => "addLd" | .addCas .. => "addCas"
  | .sum .. => "sum" | .reset _ => "reset" | .sarLd .. => "sarLd" | .sarSt .. => "sarSt" | .store .. => "store"

def ofWord (P : Params) (n : Nat) : Int := if P.alg.float then (n : Int) else (if n ≥ 2^63 then (n : Int) - 2^64 else n)

/-- (kind, cell index, operand a, operand b) the next `.tau` step performs -/
def expect (P : Params) (g : SG) : SL → Option (String × Nat × Int × Int)
  | .addAt x j => some ("add64", j, x, 0)
  | .addLd _ j => some (if P.alg.float then "ldu64" else "ld64", j, 0, 0)
  | .addCas x j old => some (if P.alg.float then "casu64" else "cas64", j, old, P.alg.view (P.alg.add old x))
  | .sum i _ | .sarLd i _ => some (if P.alg.float then "ldu64" else "ld64", i, 0, 0)
  | .reset i | .sarSt i _ => some (if P.alg.float then "stu64" else "st64", i, 0, 0)
  | .store i v => some (if P.alg.float then "stu64" else "st64", i, if i = 0 then v else 0, 0)
  | _ => none

def bindLoc (a : AccSt) (j : Nat) (addr : Nat) : Option AccSt :=
  match a.locMap.lookup addr with
  | some k => if k == j then some a else none
  | none => if a.locMap.any (·.2 == j) then none else some { a with locMap := (addr, j) :: a.locMap }

def retStr (o : Option Int) : String := match o with | none => "unit" | some v => toString v

def doStep (a : AccSt) (t : Nat) (act : SAct) : Option AccSt :=
  match step a.P t a.g (getL a t) act with
  | none => none
  | some (g', l', obs) =>
    let a1 := setL { a with g := g', steps := a.steps + 1 } t l'
    some (obs.foldl (fun acc o => match o with
      | .ret r => { acc with pendRet := (t, retStr r) :: acc.pendRet.filter (·.1 != t) }
      | _ => acc) a1)

def processLine (a : AccSt) (toks : List String) : Except String AccSt :=
  match toks with
  | "inv" :: t :: rest =>
    let act : Option SAct := match rest with
      | ["add", x] => x.toInt?.map SAct.add
      | ["sum"] => some .sum | ["reset"] => some .reset | ["sar"] => some .sumAndReset
      | ["store", v] => v.toInt?.map SAct.store
      | _ => none
    match t.toNat?, act with
    | some t, some act => (match doStep a t act with | some a' => .ok a' | none => .error "invocation not enabled")
    | _, _ => .error "bad inv"
  | ["ev", t, _layer, kind, addr, xa, xb, xr, _ln, _cp, ok] =>
    match t.toNat?, hexVal? addr, hexVal? xa, hexVal? xb, hexVal? xr with
    | some t, some addr, some xa, some xb, some xr =>
      let l := getL a t
      if kind == "rand" then
        (match l with
         | .addDraw _ => (match doStep a t (.rnd xr) with | some a' => .ok a' | none => .error "draw not enabled")
         | _ => .error s!"implementation drew a random number but the model thread is at {pcName l}")
      else
      match expect a.P a.g l with
      | none => .error s!"implementation performed {kind} but the model thread is at {pcName l}"
      | some (k, j, ea, eb) =>
        if k != kind then .error s!"at {pcName l}: model expects {k} on cell {j}, implementation did {kind}" else
        match bindLoc a j addr with
        | none => .error s!"at {pcName l}: location mismatch: model expects cell {j}"
        | some a1 =>
          -- operands
          let opOk :=
            if kind.startsWith "add" then ofWord a.P xa == ea
            else if kind.startsWith "cas" then ofWord a.P xa == ea && ofWord a.P xb == eb
            else if kind.startsWith "st" then ofWord a.P xa == ea
            else true
          if !opOk then .error s!"at {pcName l}: operand mismatch: model expects {ea} {eb}" else
          -- results
          let cur := a.P.alg.view (cellAt a1.g j)
          let resOk :=
            if kind.startsWith "ld" then ofWord a.P xr == cur
            else if kind.startsWith "add" then ofWord a.P xr == a.P.alg.view (a.P.alg.add (cellAt a1.g j) ea)
            else if kind.startsWith "cas" then (ok == "1") == (cur == ea)
            else true
          if !resOk then .error s!"at {pcName l}: result mismatch: model cell {j} holds {cur}" else
          (match doStep a1 t .tau with | some a' => .ok a' | none => .error "model step not enabled")
    | _, _, _, _, _ => .error "bad ev"
  | ["ret", t, v] =>
    match t.toNat? with
    | none => .error "bad ret"
    | some t =>
      match a.pendRet.lookup t with
      | none => .error s!"implementation returned {v} but the model operation of thread {t} is at {pcName (getL a t)}"
      | some r => if r == v then .ok { a with pendRet := a.pendRet.filter (·.1 != t) } else .error s!"return value: model {r} impl {v}"
  | _ => .error "bad line"

def initSt (toks : List String) : AccSt :=
  match toks with
  | [_name, kind] =>
    let P := if kind == "randomcell" then randomCellP else if kind == "atomicf64" then atomicF64P else atomicP
    { P := P, g := { cells := List.replicate P.n 0 } }
  | _ => {}

end Driver.SimpleAdderAcc
