import Driver.Util
import Garr.Breaker.Seq
/-! Pure oracle for the sequential breaker and the sliding-window counter. -/
namespace Driver
open Garr Garr.Breaker

def kindStr : Kind → String | .closed => "C" | .opn => "O" | .half => "H"
def cbStr : Cb → String
  | .state i k => s!"S{i}:{kindStr k}"
  | .count i s f => s!"N{i}:{s}/{f}"
  | .rejected i => s!"R{i}"
def outStr (o : Out) : String :=
  (match o.admit with | some true => "T" | some false => "F" | none => "-") ++ "[" ++ String.intercalate "," (o.cbs.map cbStr) ++ "]"

def parseInts (s : String) : Option (List Int) :=
  if s = "-" then some [] else (s.splitOn ",").mapM (fun w => w.toInt?)

/-- Call alphabet of the harness. `c` = `CanRequest()`, `s` = `OnSuccess()`, `f` = `OnFailure()`; `x`, `y`, `z` =
`Execute(ctx, fn)` with three kinds of delegate, which asks the model the same question as `CanRequest()` (the harness answers
`T` iff the delegate ran, `F` iff it did not and the error is `ErrFailFast`); `n` = `Execute(ctx, nil)`, which has no model
step (`none`): the code returns before it looks at the breaker, the answer line shows `-[]` for it. -/
def parseOps (s : String) : Option (List (Option Op)) :=
  s.toList.mapM (fun c =>
    if c = 'c' || c = 'x' || c = 'y' || c = 'z' then some (some Op.can)
    else if c = 's' then some (some Op.succ)
    else if c = 'f' then some (some Op.fail)
    else if c = 'n' then some none
    else none)

/-- answers of the model's calls, with `-[]` at the positions of the calls that have no model step -/
def interleaveOuts : List (Option Op) → List Out → List String
  | [], _ => []
  | none :: ops, outs => "-[]" :: interleaveOuts ops outs
  | some _ :: ops, o :: outs => outStr o :: interleaveOuts ops outs
  | some _ :: _, [] => []

/-- `brk thrbits minReq trial open window interval k ops <csfxyzn…> ticks <t,…> [env <glue>]`; the optional `env` token
describes harness-side glue the model has no notion of (erroring listeners, a logger, a breaker name) and is ignored. -/
def handleBrk (toks : List String) : String :=
  match toks with
  | thr :: mr :: tr :: op :: w :: iv :: k :: "ops" :: ops :: "ticks" :: ticks :: rest =>
    if !(rest.isEmpty || (rest.length == 2 && rest.head? == some "env")) then "bad-op" else
    match f64? thr, mr.toInt?, tr.toInt?, op.toInt?, w.toInt?, iv.toInt?, k.toNat?, parseOps ops, parseInts ticks with
    | some thr, some mr, some tr, some op, some w, some iv, some k, some ops, some ticks =>
      let cfg : Config := { thr := thr, minReq := mr, trial := tr, openW := op, window := w, interval := iv, listeners := k }
      let (st0, ts0, cbs0) := create cfg ticks
      let (outs, _, tsEnd) := runOps cfg st0 ts0 (ops.filterMap id)
      let used := ticks.length - tsEnd.length
      s!"{used} [{String.intercalate "," (cbs0.map cbStr)}] " ++ String.intercalate ";" (interleaveOuts ops outs)
    | _, _, _, _, _, _, _, _, _ => "bad-op"
  | _ => "bad-op"

/-- `win window interval ops <sfc…> ticks <t,…>`: the exported SlidingWindowCounter (s = OnSuccess, f = OnFailure, c = Count) -/
def handleWin (toks : List String) : String :=
  match toks with
  | [w, iv, "ops", ops, "ticks", ticks] =>
    match w.toInt?, iv.toInt?, parseInts ticks with
    | some w, some iv, some ticks =>
      let (t0, ts0) := pop ticks
      let rec go (win : Win) (ts : List Int) (ops : List Char) (acc : List String) : List String × List Int :=
        match ops with
        | [] => (acc.reverse, ts)
        | c :: rest =>
          if c = 'c' then go win ts rest (s!"{win.snap.1}/{win.snap.2}" :: acc)
          else
            let (t, ts1) := pop ts
            let (win', e) := onEvent w iv win t (c = 's')
            go win' ts1 rest ((match e with | some (s, f) => s!"{s}/{f}" | none => "-") :: acc)
      let (outs, tsEnd) := go (newWin t0) ts0 ops.toList []
      s!"{ticks.length - tsEnd.length} " ++ String.intercalate ";" outs
    | _, _, _ => "bad-op"
  | _ => "bad-op"

end Driver
