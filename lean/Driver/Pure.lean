import Driver.Util
import Driver.BreakerSeq
import Garr.Retry.Model
import Garr.Validate.Model
import Garr.SpecParse.Model
/-! Pure oracles: one request line, one response line. -/
namespace Driver
open Garr Garr.Retry

/-- prefix-notation back-off expression through the model's constructors:
`F d | R lo hi | E init max multbits | J lobits hibits <inner> | L k <inner>` -/
partial def parseBackoff : List String → Option (Option Backoff × List String)
  | "F" :: d :: rest => d.toInt?.map (fun d => (mkFixed d, rest))
  | "R" :: lo :: hi :: rest => do
      let lo ← lo.toInt?; let hi ← hi.toInt?
      pure (mkRandom lo hi, rest)
  | "E" :: i :: m :: mu :: rest => do
      let i ← i.toInt?; let m ← m.toInt?; let mu ← f64? mu
      pure (mkExpo i m mu, rest)
  | "J" :: lo :: hi :: rest => do
      let lo ← f64? lo; let hi ← f64? hi
      let (inner, rest') ← parseBackoff rest
      pure (mkJitter inner lo hi, rest')
  | "L" :: k :: rest => do
      let k ← k.toInt?
      let (inner, rest') ← parseBackoff rest
      pure (mkLimit inner k, rest')
  | _ => none

def showBackoff : Backoff → String
  | .fixed d => s!"F {d}"
  | .random lo hi => s!"R {lo} {hi}"
  | .expo i m mu => s!"E {i} {m} {f64Hex mu}"
  | .jitter b lo hi => s!"J {f64Hex lo} {f64Hex hi} {showBackoff b}"
  | .limit b k => s!"L {k} {showBackoff b}"

def parseWords (s : String) : Option (List Nat) :=
  if s = "-" then some [] else (s.splitOn ",").mapM (fun w => w.toNat?)

/-- drop the optional trailing `via <route>` of a request: it names the API route the harness used to build the object
(`d` constructors nested directly, `b` `BackoffBuilder.BaseBackoff` + `WithLimit`/`WithJitter`/`WithJitterBound` + `Build`);
the model has one notion of construction (`mk*`; `Retry.build` is the same nesting), so the answer does not depend on it. -/
def dropVia (toks : List String) : List String :=
  match toks.reverse with
  | _ :: "via" :: rest => rest.reverse
  | _ => toks

/-- `retry <expr…> n <n> pw <bits> ws <w,w,…> [via <route>]` ↦ `err` | `<delay> <wordsConsumed>` -/
def handleRetry (toks : List String) : String :=
  match parseBackoff toks with
  | none => "bad-op"
  | some (ob, rest) =>
    match dropVia rest with
    | ["n", n, "pw", pw, "ws", ws] =>
      match n.toInt?, f64? pw, parseWords ws with
      | some n, some pw, some ws =>
        match ob with
        | none => "err"
        | some b =>
          let (d, left) := next pw n b ws
          s!"{d} {ws.length - left.length}"
      | _, _, _ => "bad-op"
    | _ => "bad-op"

/-- `ctor <expr…> [via <route>]` ↦ `ok` | `err` -/
def handleCtor (toks : List String) : String :=
  match parseBackoff toks with
  | some (ob, rest) =>
    if !(dropVia rest).isEmpty then "bad-op" else
    match ob with
    | some _ => "ok"
    | none => "err"
  | none => "bad-op"

def parseBytes (s : String) : Option (List Nat) :=
  if s = "-" then some [] else
  let cs := s.toList
  let rec go : List Char → Option (List Nat)
    | [] => some []
    | [_] => none
    | a :: b :: rest => do
      let v ← hexVal? (String.ofList [a, b])
      let tl ← go rest
      pure (v :: tl)
  go cs

/-- `spec <hexbytes|-> pf <none|bits>` ↦ `err` | canonical description -/
def handleSpec (toks : List String) : String :=
  match toks with
  | [bs, "pf", pf] =>
    match parseBytes bs with
    | none => "bad-op"
    | some bytes =>
      let pfv : Option (Option F64) := if pf = "none" then some none else (f64? pf).map some
      match pfv with
      | none => "bad-op"
      | some pfv =>
        match SpecParse.parse pfv bytes with
        | none => "err"
        | some b => showBackoff b
  | _ => "bad-op"

/-- `cfg thrbits minReq trial open window interval` ↦ `ok` | `err` -/
def handleCfg (toks : List String) : String :=
  match toks with
  | [thr, mr, tr, op, w, i] =>
    match f64? thr, mr.toInt?, tr.toInt?, op.toInt?, w.toInt?, i.toInt? with
    | some thr, some mr, some tr, some op, some w, some i =>
      if Validate.valid { thr := thr, minReq := mr, trial := tr, openW := op, window := w, interval := i }
      then "ok" else "err"
    | _, _, _, _, _, _ => "bad-op"
  | _ => "bad-op"

/-- `f64 <op> a [b]` primitive operations -/
def handleF64 (toks : List String) : String :=
  match toks with
  | ["mul", a, b] => match f64? a, f64? b with
    | some a, some b => f64Hex (F64.mul a b) | _, _ => "bad-op"
  | ["div", a, b] => match f64? a, f64? b with
    | some a, some b => f64Hex (F64.div a b) | _, _ => "bad-op"
  | ["add", a, b] => match f64? a, f64? b with
    | some a, some b => f64Hex (F64.add a b) | _, _ => "bad-op"
  | ["lt", a, b] => match f64? a, f64? b with
    | some a, some b => if F64.lt a b then "1" else "0" | _, _ => "bad-op"
  | ["le", a, b] => match f64? a, f64? b with
    | some a, some b => if F64.le a b then "1" else "0" | _, _ => "bad-op"
  | ["toi", a] => match f64? a with
    | some a => toString (F64.toInt64 a) | _ => "bad-op"
  | ["ofi", a] => match a.toInt? with
    | some a => f64Hex (F64.ofInt a) | _ => "bad-op"
  | ["rt", a] => match f64? a with
    | some a => f64Hex a ++ (if decide (F64.IsF64 a) then " c" else " n") | _ => "bad-op"
  | _ => "bad-op"

def handlePure (line : String) : String :=
  match splitWs line with
  | "retry" :: rest => handleRetry rest
  | "ctor" :: rest => handleCtor rest
  | "spec" :: rest => handleSpec rest
  | "cfg" :: rest => handleCfg rest
  | "f64" :: rest => handleF64 rest
  | "brk" :: rest => handleBrk rest
  | "win" :: rest => handleWin rest
  | _ => "bad-op"

end Driver
