module garrfacts

go 1.23
