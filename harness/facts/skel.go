package main

// Synchronisation skeleton: the body of every function of the package, printed from the AST without comments, with
// function-local variables (parameters, results, receivers, locals) renamed to v0, v1, ... in order of first
// appearance and all white space collapsed. Two source files with the same skeleton differ only in comments,
// formatting and local names; the worker-pool model (lean/Garr/Pool/Model.lean) was written from exactly the skeleton
// stored in harness/pooltest/skeleton.expected, so any other difference breaks the tie to the model.

import (
	"bytes"
	"fmt"
	"go/ast"
	"go/printer"
	"go/token"
	"go/types"
	"strings"
)

func emitSkeleton(pkgName string, fset *token.FileSet, files []*ast.File, info *types.Info) {
	for _, f := range files {
		for _, d := range f.Decls {
			if gd, ok := d.(*ast.GenDecl); ok && gd.Tok != token.IMPORT {
				// constants, package-level variables and types (field types, initial values, iota order) are part of what was modelled
				file := fset.Position(gd.Pos()).Filename
				if i := strings.LastIndex(file, "/"); i >= 0 {
					file = file[i+1:]
				}
				for k, sp := range gd.Specs {
					name := ""
					switch x := sp.(type) {
					case *ast.TypeSpec:
						name = "type " + x.Name.Name
						x.Doc, x.Comment = nil, nil
						if st, ok := x.Type.(*ast.StructType); ok {
							for _, fl := range st.Fields.List {
								fl.Doc, fl.Comment = nil, nil
							}
						}
					case *ast.ValueSpec:
						names := make([]string, len(x.Names))
						for i, n := range x.Names {
							names[i] = n.Name
						}
						name = strings.ToLower(gd.Tok.String()) + " " + strings.Join(names, ",")
						x.Doc, x.Comment = nil, nil
					}
					var buf bytes.Buffer
					(&printer.Config{Mode: printer.RawFormat}).Fprint(&buf, fset, sp)
					text := strings.Join(strings.Fields(buf.String()), " ")
					if gd.Tok == token.CONST {
						text = fmt.Sprintf("[%d] %s", k, text) // position in the group: iota
					}
					fmt.Printf("SKEL\t%s\t%s:%s\t%s\n", pkgName, file, name, text)
				}
				continue
			}
			fd, ok := d.(*ast.FuncDecl)
			if !ok || fd.Body == nil {
				continue
			}
			fname := fd.Name.Name
			if fd.Recv != nil && len(fd.Recv.List) > 0 {
				fname = types.ExprString(fd.Recv.List[0].Type) + "." + fname
			}
			names := map[types.Object]string{}
			rename := func(id *ast.Ident) {
				o := info.Defs[id]
				if o == nil {
					o = info.Uses[id]
				}
				v, ok := o.(*types.Var)
				if !ok || v.IsField() || v.Pkg() == nil || v.Parent() == v.Pkg().Scope() {
					return
				}
				if v.Pos() < fd.Pos() || v.Pos() > fd.End() {
					return
				}
				if _, ok := names[o]; !ok {
					names[o] = fmt.Sprintf("v%d", len(names))
				}
				id.Name = names[o]
			}
			ast.Inspect(fd, func(n ast.Node) bool {
				switch x := n.(type) {
				case *ast.SelectorExpr:
					// only the qualifier can be a local variable; the selected name is a field or method
					ast.Inspect(x.X, func(m ast.Node) bool {
						if id, ok := m.(*ast.Ident); ok {
							rename(id)
						}
						return true
					})
					return false
				case *ast.KeyValueExpr:
					// keys of struct literals are field names
					if _, ok := x.Key.(*ast.Ident); ok {
						ast.Inspect(x.Value, func(m ast.Node) bool {
							if id, ok := m.(*ast.Ident); ok {
								rename(id)
							}
							return true
						})
						return false
					}
				case *ast.Ident:
					rename(x)
				}
				return true
			})
			fd.Doc = nil
			var buf bytes.Buffer
			(&printer.Config{Mode: printer.RawFormat}).Fprint(&buf, fset, fd)
			text := strings.Join(strings.Fields(buf.String()), " ")
			file := fset.Position(fd.Pos()).Filename
			if i := strings.LastIndex(file, "/"); i >= 0 {
				file = file[i+1:]
			}
			fmt.Printf("SKEL\t%s\t%s:%s\t%s\n", pkgName, file, fname, text)
		}
	}
}
