// Spike: access-fact extractor. For every selector of a struct field declared in the package, classify the
// access: atomic (address flows into a sync/atomic call, or method call on an atomic.Value-typed field),
// init (inside a composite literal, or assignment to a field of a variable that was bound to a composite
// literal / new object in the same function), plain read, plain write; plus the locks syntactically held.
package main

import (
	"fmt"
	"go/ast"
	"go/build"
	"go/importer"
	"go/parser"
	"go/token"
	"go/types"
	"os"
	"path/filepath"
	"sort"
	"strings"
)

type fact struct {
	field, fn, kind, locks, pos string
}

func main() {
	dir := os.Args[1]
	pkgName := filepath.Base(dir)
	fset := token.NewFileSet()
	ctx := build.Default
	ents, _ := os.ReadDir(dir)
	var files []*ast.File
	for _, e := range ents {
		n := e.Name()
		if !strings.HasSuffix(n, ".go") || strings.HasSuffix(n, "_test.go") {
			continue
		}
		if ok, _ := ctx.MatchFile(dir, n); !ok {
			continue
		}
		f, err := parser.ParseFile(fset, filepath.Join(dir, n), nil, 0)
		if err != nil {
			panic(err)
		}
		files = append(files, f)
	}
	info := &types.Info{Selections: map[*ast.SelectorExpr]*types.Selection{}, Uses: map[*ast.Ident]types.Object{}, Defs: map[*ast.Ident]types.Object{}, Types: map[ast.Expr]types.TypeAndValue{}}
	conf := types.Config{Importer: importer.ForCompiler(fset, "source", nil)}
	pkg, err := conf.Check(files[0].Name.Name, fset, files, info)
	if err != nil {
		fmt.Println("typecheck:", err)
		return
	}
	defer emitSkeleton(pkgName, fset, files, info) // last: it renames identifiers in the ASTs
	var facts []fact
	for _, f := range files {
		for _, d := range f.Decls {
			fd, ok := d.(*ast.FuncDecl)
			if !ok || fd.Body == nil {
				continue
			}
			fname := fd.Name.Name
			if fd.Recv != nil && len(fd.Recv.List) > 0 {
				fname = types.ExprString(fd.Recv.List[0].Type) + "." + fname
			}
			// variables bound to fresh objects in this function (composite literal / &T{} / new)
			fresh := map[types.Object]bool{}
			ast.Inspect(fd.Body, func(n ast.Node) bool {
				as, ok := n.(*ast.AssignStmt)
				if !ok {
					return true
				}
				for i, rhs := range as.Rhs {
					if i >= len(as.Lhs) {
						break
					}
					if isFresh(rhs) {
						if id, ok := as.Lhs[i].(*ast.Ident); ok {
							if o := info.Defs[id]; o != nil {
								fresh[o] = true
							} else if o := info.Uses[id]; o != nil {
								fresh[o] = true
							}
						}
					}
				}
				return true
			})
			// lock bracket structure of the function, in source order
			var seq []string
			ast.Inspect(fd.Body, func(n ast.Node) bool {
				if call, ok := n.(*ast.CallExpr); ok {
					if sel, ok := call.Fun.(*ast.SelectorExpr); ok {
						switch sel.Sel.Name {
						case "Lock", "Unlock", "RLock", "RUnlock", "TryRLock":
							if tv, ok := info.Types[sel.X]; ok && strings.Contains(tv.Type.String(), "sync.") {
								seq = append(seq, sel.Sel.Name)
							}
						}
					}
				}
				return true
			})
			fmt.Printf("BRACKETS\t%s\t%s\t%s\n", pkgName, fname, strings.Join(seq, ","))
			// named results assigned fresh objects count too (handled above via Uses)
			// walk with a stack to know parents, and a linear lock tracker
			var stack []ast.Node
			held := map[string]string{} // lock expr -> mode
			deferred := map[*ast.CallExpr]bool{}
			ast.Inspect(fd.Body, func(n ast.Node) bool {
				if n == nil {
					stack = stack[:len(stack)-1]
					return true
				}
				stack = append(stack, n)
				// lock tracking: x.Lock()/RLock()/Unlock()/RUnlock() in source order; a deferred unlock releases at function end
				if ds, ok := n.(*ast.DeferStmt); ok {
					deferred[ds.Call] = true
				}
				if call, ok := n.(*ast.CallExpr); ok && !deferred[call] {
					if sel, ok := call.Fun.(*ast.SelectorExpr); ok {
						recv := types.ExprString(sel.X)
						switch sel.Sel.Name {
						case "Lock":
							held[recv] = "W"
						case "RLock", "TryRLock":
							held[recv] = "R"
						case "casCellsBusy":
							held["cellsBusy"] = "W" // the striped adders' spin flag (acquire = successful CAS)
						case "Unlock", "RUnlock":
							delete(held, recv)
						}
					}
				}
				sel, ok := n.(*ast.SelectorExpr)
				if !ok {
					return true
				}
				s := info.Selections[sel]
				if s == nil || s.Kind() != types.FieldVal {
					return true
				}
				fv := s.Obj().(*types.Var)
				if fv.Pkg() != pkg {
					return true
				}
				owner := recvName(s.Recv())
				kind := classify(sel, stack, info, fresh)
				var ls []string
				for k, m := range held {
					ls = append(ls, k+":"+m)
				}
				sort.Strings(ls)
				facts = append(facts, fact{owner + "." + fv.Name(), fname, kind, strings.Join(ls, ","), fset.Position(sel.Pos()).String()})
				return true
			})
		}
	}
	// machine-readable dump: one fact per line
	for _, f := range facts {
		fmt.Printf("FACT\t%s\t%s\t%s\t%s\t%s\t%s\n", pkgName, f.field, f.fn, f.kind, f.locks, f.pos)
	}
	// blocking constructs / select-with-default facts
	for _, f := range files {
		ast.Inspect(f, func(n ast.Node) bool {
			switch x := n.(type) {
			case *ast.SelectStmt:
				hasDefault := false
				for _, c := range x.Body.List {
					if cc, ok := c.(*ast.CommClause); ok && cc.Comm == nil {
						hasDefault = true
					}
				}
				fmt.Printf("SELECT\t%s\t%s\t%v\n", pkgName, fset.Position(x.Pos()).String(), hasDefault)
			case *ast.SendStmt:
				fmt.Printf("BLOCKING\t%s\t%s\tsend\n", pkgName, fset.Position(x.Pos()).String())
			case *ast.UnaryExpr:
				if x.Op == token.ARROW {
					fmt.Printf("BLOCKING\t%s\t%s\trecv\n", pkgName, fset.Position(x.Pos()).String())
				}
			}
			return true
		})
	}
}

func recvName(t types.Type) string {
	if p, ok := t.(*types.Pointer); ok {
		t = p.Elem()
	}
	if n, ok := t.(*types.Named); ok {
		return n.Obj().Name()
	}
	return t.String()
}

func isFresh(e ast.Expr) bool {
	switch x := e.(type) {
	case *ast.CompositeLit:
		return true
	case *ast.UnaryExpr:
		if x.Op == token.AND {
			_, ok := x.X.(*ast.CompositeLit)
			return ok
		}
	case *ast.CallExpr:
		if id, ok := x.Fun.(*ast.Ident); ok && (id.Name == "new" || id.Name == "make") {
			return true
		}
	}
	return false
}

func isAtomicPkg(info *types.Info, e ast.Expr) bool {
	sel, ok := e.(*ast.SelectorExpr)
	if !ok {
		return false
	}
	id, ok := sel.X.(*ast.Ident)
	if !ok {
		return false
	}
	if pn, ok := info.Uses[id].(*types.PkgName); ok {
		return pn.Imported().Path() == "sync/atomic"
	}
	return false
}

func isAtomicValue(t types.Type) bool {
	if n, ok := t.(*types.Named); ok {
		return n.Obj().Pkg() != nil && n.Obj().Pkg().Path() == "sync/atomic"
	}
	return false
}

// classify looks at the ancestors of the selector
func classify(sel *ast.SelectorExpr, stack []ast.Node, info *types.Info, fresh map[types.Object]bool) string {
	// inside composite literal key: Field: v  (KeyValueExpr key is an Ident, not a selector) -> n/a
	// walk up
	cur := ast.Node(sel)
	addrTaken := false
	for i := len(stack) - 2; i >= 0; i-- {
		p := stack[i]
		switch x := p.(type) {
		case *ast.ParenExpr:
			cur = p
			continue
		case *ast.UnaryExpr:
			if x.Op == token.AND {
				addrTaken = true
				cur = p
				continue
			}
		case *ast.IndexExpr:
			// &r.cells[i] : element of a field slice
			if x.X == cur {
				cur = p
				continue
			}
		case *ast.CallExpr:
			// conversion chains unsafe.Pointer(&x.f), (*unsafe.Pointer)(...)
			if len(x.Args) == 1 && x.Args[0] == cur {
				if tv, ok := info.Types[x.Fun]; ok && tv.IsType() {
					cur = p
					continue
				}
			}
			if isAtomicPkg(info, x.Fun) && addrTaken {
				for _, a := range x.Args {
					if a == cur {
						return "atomic"
					}
				}
			}
		case *ast.SelectorExpr:
			// method call on the field: x.f.Load()
			if x.X == cur {
				if tv, ok := info.Types[cur.(ast.Expr)]; ok && isAtomicValue(tv.Type) {
					return "atomic"
				}
				// field of field: outer selector will be classified on its own; this one is a read
				return "read"
			}
		case *ast.AssignStmt:
			for _, l := range x.Lhs {
				if l == cur {
					if id, ok := sel.X.(*ast.Ident); ok {
						if o := info.Uses[id]; o != nil && fresh[o] {
							return "init"
						}
					}
					return "write"
				}
			}
		case *ast.IncDecStmt:
			if x.X == cur {
				return "write"
			}
		}
		break
	}
	if addrTaken {
		return "addr"
	}
	return "read"
}
