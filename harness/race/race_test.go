// Package race: stress workloads over the whole concurrent-safe API surface, run under the Go race detector
// on the UN-instrumented working tree (search engine for C14; sanity check that the discipline is not vacuous).
package race

import (
	"context"
	"os"
	"strconv"
	"sync"
	"sync/atomic"
	"testing"
	"time"

	"go.linecorp.com/garr/adder"
	cbreaker "go.linecorp.com/garr/circuit-breaker"
	"go.linecorp.com/garr/queue"
	"go.linecorp.com/garr/retry"
	workerpool "go.linecorp.com/garr/worker-pool"
)

func rounds() int {
	n, _ := strconv.Atoi(os.Getenv("RACE_ROUNDS"))
	if n == 0 {
		n = 200
	}
	return n
}

func par(n int, f func(i int)) {
	var wg sync.WaitGroup
	for i := 0; i < n; i++ {
		wg.Add(1)
		go func(i int) { defer wg.Done(); f(i) }(i)
	}
	wg.Wait()
}

func TestQueues(t *testing.T) {
	for _, q := range []queue.Queue{queue.NewJDKLinkedQueue(), queue.NewMutexLinkedQueue()} {
		q := q
		par(8, func(i int) {
			for k := 0; k < rounds(); k++ {
				switch (i + k) % 6 {
				case 0, 1:
					q.Offer(i*100000 + k)
				case 2:
					q.Poll()
				case 3:
					q.Peek()
					q.IsEmpty()
				case 4:
					q.Size()
				case 5:
					if it := q.Iterator(); it != nil {
						for n := 0; it.HasNext() && n < 20; n++ {
							it.Next()
							if n%3 == 0 {
								it.Remove()
							}
						}
					}
				}
			}
		})
	}
}

func TestAdders(t *testing.T) {
	for _, ty := range []adder.Type{adder.JDKAdderType, adder.RandomCellAdderType, adder.AtomicAdderType, adder.MutexAdderType} {
		a := adder.NewLongAdder(ty)
		par(8, func(i int) {
			for k := 0; k < rounds()*4; k++ {
				switch {
				case k%5 == 0:
					a.Sum()
				case k%5 == 1 && i%2 == 0:
					a.Inc() // the unit wrappers next to general updates
				case k%5 == 2 && i%2 == 1:
					a.Dec()
				default:
					a.Add(int64(i))
				}
			}
		})
		if ty == adder.MutexAdderType {
			par(6, func(i int) {
				for k := 0; k < rounds(); k++ {
					switch (i + k) % 7 {
					case 0:
						a.SumAndReset()
					case 1:
						a.Store(3)
					case 2:
						a.Reset()
					case 3:
						a.Inc()
					case 4:
						a.Dec()
					default:
						a.Add(1)
					}
				}
			})
		}
	}
	for _, ty := range []adder.Type{adder.JDKF64AdderType, adder.AtomicF64AdderType} {
		a := adder.NewFloat64Adder(ty)
		par(8, func(i int) {
			for k := 0; k < rounds()*4; k++ {
				if k%5 == 0 {
					a.Sum()
				} else {
					a.Add(float64(i))
				}
			}
		})
	}
}

// fresh striped adders, many goroutines from the first update on: table creation, cell attachment and every growth step happen under
// contention in each round (one long-lived adder grows its table once and for all)
func TestFreshAdders(t *testing.T) {
	for r := 0; r < rounds()*2; r++ {
		a := adder.NewLongAdder(adder.JDKAdderType)
		f := adder.NewFloat64Adder(adder.JDKF64AdderType)
		par(12, func(i int) {
			for k := 0; k < 60; k++ {
				a.Add(int64(i + 1))
				f.Add(float64(i + 1))
				if k%16 == 5 {
					a.Sum()
					f.Sum()
				}
			}
		})
		if a.Sum() != 60*78 {
			t.Errorf("fresh adder round %d: Sum = %d, want %d", r, a.Sum(), 60*78)
		}
	}
}

type lst struct {
	mu sync.Mutex
	n  int
}

// a listener as applications write them: it looks at the breaker it is told about (name) and at the count it is handed
func (l *lst) seen(cb cbreaker.CircuitBreaker, ec *cbreaker.EventCount) error {
	var name *cbreaker.Name
	if ec == nil { // rejections only: state changes and their zero counts are also notified by the constructor
		name = cb.Name()
	}
	var extra int64
	if ec != nil {
		extra = ec.Total() + ec.Success() + ec.Failure() + int64(ec.FailureRate()) + int64(ec.SuccessRate())
	}
	l.mu.Lock()
	l.n++
	if name != nil {
		l.n += len(name.Name)
	}
	l.n += int(extra & 1)
	l.mu.Unlock()
	return nil
}

// (the constructor notifies the initial state synchronously: a listener touching the breaker only in the other callbacks makes the
// first use of its getters happen on the concurrent path)
func (l *lst) OnStateChanged(cb cbreaker.CircuitBreaker, _ cbreaker.CircuitState) error {
	l.mu.Lock()
	l.n++
	l.mu.Unlock()
	return nil
}
func (l *lst) OnEventCountUpdated(cb cbreaker.CircuitBreaker, ec *cbreaker.EventCount) error {
	return l.seen(cb, ec)
}
func (l *lst) OnRequestRejected(cb cbreaker.CircuitBreaker) error { return l.seen(cb, nil) }
func (l *lst) Stop()                                              {}

func TestBreakerAndWindow(t *testing.T) {
	cb, err := cbreaker.NewCircuitBreakerBuilder().SetFailureRateThreshold(0.5).SetMinimumRequestThreshold(2).
		SetCircuitOpenWindow(200 * time.Microsecond).SetTrialRequestInterval(100 * time.Microsecond).
		SetCounterSlidingWindow(400 * time.Microsecond).SetCounterUpdateInterval(50 * time.Microsecond).AddListener(&lst{}).Build()
	if err != nil {
		t.Fatal(err)
	}
	par(8, func(i int) {
		for k := 0; k < rounds()*5; k++ {
			switch (i + k) % 5 {
			case 0:
				cb.CanRequest()
			case 1:
				cb.OnSuccess()
			case 2:
				cb.Execute(context.Background(), func(context.Context) (interface{}, error) { return cb.Name(), nil })
			default:
				cb.OnFailure()
			}
			if k%50 == 0 {
				time.Sleep(20 * time.Microsecond)
			}
		}
	})
	w, _ := cbreaker.NewSlidingWindowCounter(cbreaker.SystemTicker, 400*time.Microsecond, 50*time.Microsecond)
	par(8, func(i int) {
		for k := 0; k < rounds()*5; k++ {
			if (i+k)%2 == 0 {
				w.OnSuccess()
			} else {
				w.OnFailure()
			}
			w.Count()
		}
	})
}

func TestPool(t *testing.T) {
	for r := 0; r < rounds()/4+1; r++ {
		p := workerpool.NewPool(context.Background(), workerpool.Option{NumberWorker: 2, ExpandableLimit: int32(r % 3), ExpandedLifetime: 100 * time.Microsecond, DisableAutoStart: r%5 == 0})
		var wg sync.WaitGroup
		for i := 0; i < 6; i++ {
			wg.Add(1)
			go func(i int) {
				defer wg.Done()
				defer func() { recover() }()
				for k := 0; k < 4; k++ {
					if (i+k)%2 == 0 {
						tk := p.Execute(func(context.Context) (interface{}, error) { return k, nil })
						select {
						case <-tk.Result():
						case <-time.After(time.Second):
						}
					} else {
						p.TryExecute(func(context.Context) (interface{}, error) { return k, nil })
					}
				}
			}(i)
		}
		if r%5 == 0 {
			go p.Start()
		}
		if r%2 == 0 {
			time.Sleep(50 * time.Microsecond)
		}
		p.Stop()
		wg.Wait()
	}
}

// a pool that is never started (wait group at zero) and expands on demand: blocking submissions whose own context is already done spawn
// expanded workers and return through the cancellation case, Stop runs next to them (its wg.Wait against the workers' registration)
func TestPoolNeverStarted(t *testing.T) {
	for r := 0; r < rounds()/2+1; r++ {
		p := workerpool.NewPool(context.Background(), workerpool.Option{NumberWorker: 1, ExpandableLimit: int32(1 + r%3), ExpandedLifetime: 50 * time.Microsecond, DisableAutoStart: true})
		dead, cancel := context.WithCancel(context.Background())
		cancel()
		var wg sync.WaitGroup
		for i := 0; i < 4; i++ {
			wg.Add(1)
			go func(i int) {
				defer wg.Done()
				defer func() { recover() }()
				p.ExecuteWithCtx(dead, func(context.Context) (interface{}, error) { return i, nil })
			}(i)
		}
		if r%2 == 0 {
			wg.Wait()
		}
		p.Stop()
		wg.Wait()
	}
}

func TestBackoffs(t *testing.T) {
	// shared backoffs of every kind and through every construction route; fresh ones in every round, so that the first (cold) queries
	// of a backoff are concurrent too; attempts from the first to far beyond the clamp of the exponential policy and beyond the limit
	for r := 0; r < 1+rounds()/20; r++ {
		var shared []retry.Backoff
		add := func(b retry.Backoff, err error) {
			if err != nil {
				t.Fatal(err)
			}
			shared = append(shared, b)
		}
		add(retry.NewBackoffBuilder().BaseBackoffSpec("exponential=10:1000:2").WithLimit(5).WithJitter(0.2).Build())
		add(retry.NewBackoffBuilder().BaseBackoffSpec("exponential=10:1000:2").WithLimit(40).WithJitterBound(-0.1, 0.3).Build())
		add(retry.NewBackoffBuilder().BaseBackoffSpec("exponential=3:100000:1.5").Build())
		add(retry.NewBackoffBuilder().BaseBackoffSpec("random=5:500").WithLimit(30).Build())
		add(retry.NewBackoffBuilder().BaseBackoffSpec("fixed=7").WithJitter(0.5).Build())
		add(retry.NewExponentialBackoff(1, 1<<40, 3))
		add(retry.NewRandomBackoff(1, 1000))
		add(retry.NewFixedBackoff(9))
		if e, err := retry.NewExponentialBackoff(10, 1000, 2); err == nil {
			add(retry.NewBackoffBuilder().BaseBackoff(e).WithLimit(25).Build())
			add(retry.NewAttemptLimitingBackoff(e, 30))
			add(retry.NewJitterAddingBackoff(e, -0.2, 0.2))
			add(e, nil)
		}
		par(8, func(i int) {
			for k := 0; k < 40; k++ {
				for _, b := range shared {
					b.NextDelayMillis(1 + (k*(i+1)+7*i)%45)
				}
			}
		})
	}
}

// TestSharedBackoffValues: "backoff queries" are documented as safe for concurrent use, and C05's envelope holds for every query whoever
// else is querying: a deterministic policy (fixed, exponential, limit wrapper) shared by several goroutines must return, for every attempt
// number, exactly what a backoff of the same parameters returns to a single goroutine. (Values, not races: a memo kept in two separate
// atomics is race-free and still hands one attempt the delay of another.)
func TestSharedBackoffValues(t *testing.T) {
	type mk func() (retry.Backoff, error)
	makers := map[string]mk{
		"exponential(10,1000,2)":        func() (retry.Backoff, error) { return retry.NewExponentialBackoff(10, 1000, 2) },
		"exponential(1,2^40,3)":         func() (retry.Backoff, error) { return retry.NewExponentialBackoff(1, 1<<40, 3) },
		"exponential(100,6400000,2)":    func() (retry.Backoff, error) { return retry.NewExponentialBackoff(100, 6400000, 2) },
		"spec exponential=3:100000:1.5": func() (retry.Backoff, error) { return retry.NewBackoffBuilder().BaseBackoffSpec("exponential=3:100000:1.5").Build() },
		"limit(exponential(10,1000,2),25)": func() (retry.Backoff, error) {
			e, err := retry.NewExponentialBackoff(10, 1000, 2)
			if err != nil {
				return nil, err
			}
			return retry.NewAttemptLimitingBackoff(e, 25)
		},
		"fixed(9)": func() (retry.Backoff, error) { return retry.NewFixedBackoff(9) },
	}
	const maxAttempt = 48
	for r := 0; r < 2+rounds()/10; r++ {
		for name, make := range makers {
			twin, err := make()
			if err != nil {
				t.Fatal(err)
			}
			var want [maxAttempt + 1]int64
			for n := 1; n <= maxAttempt; n++ {
				want[n] = twin.NextDelayMillis(n)
			}
			shared, err := make()
			if err != nil {
				t.Fatal(err)
			}
			var bad int32
			par(8, func(i int) {
				for k := 0; k < 4000; k++ {
					n := 1 + (k*(2*i+1)+5*i)%maxAttempt
					if got := shared.NextDelayMillis(n); got != want[n] && atomic.CompareAndSwapInt32(&bad, 0, 1) {
						t.Errorf("MONFAIL C05 shared %s queried by 8 goroutines: attempt %d returned %d, a backoff of the same parameters queried by one goroutine returns %d", name, n, got, want[n])
					}
				}
			})
		}
	}
}
