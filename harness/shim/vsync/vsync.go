// Package vsync replaces sync in the two mutex-based files and in the worker pool of the instrumented copy.
// RWMutex is cooperative under vsched: every acquisition and release is a scheduling point
// and logs `ev <tid> m <lock|unlock|rlock|runlock> <addr> 0 0 0 0 0 0`; a thread that cannot
// acquire is marked blocked. Outside a controlled run it is a plain sync.RWMutex.
package vsync

import (
	"sync"
	"unsafe"

	"garrshim/vsched"
)

const Layer = "m"

// the parts of package sync that need no cooperation with the scheduler are the real ones (an EDIT of garr may use any of them and
// must still build)

// StepLevel (set by the poolstep harness only) makes the pool's remaining synchronisation objects cooperative as well:
//   - WaitGroup is a plain counter: Add/Done are scheduling points logging `ev <tid> m wgadd <addr> <delta> 0 <counter after> 0 0 0`
//     (32-bit two's complement, hex); Wait is ONE scheduling point that is granted only while the counter is zero, logging `wgwait`;
//   - RWMutex prefers writers like sync.RWMutex: Lock first announces itself (`lockpend`; from then on RLock blocks and TryRLock
//     fails), then acquires when the readers have drained (`lock`).
//
// Without StepLevel nothing changes for the other harnesses.
var StepLevel bool

// WaitGroup is the real one between chaos points (see vsched.Chaos) unless StepLevel
type WaitGroup struct {
	real sync.WaitGroup
	n    int
}

func (w *WaitGroup) coop() bool { return StepLevel && vsched.LayerOn(Layer) }

func (w *WaitGroup) Add(n int) {
	if !w.coop() {
		vsched.Chaos()
		w.real.Add(n)
		vsched.Chaos()
		return
	}
	vsched.Point()
	w.n += n
	vsched.Logf("ev %d %s wgadd %x %x 0 %x 0 0 0\n", vsched.Tid(), Layer, uintptr(unsafe.Pointer(w)), uint32(int32(n)), uint32(int32(w.n)))
	if w.n < 0 {
		vsched.Crash("sync: negative WaitGroup counter")
	}
}
func (w *WaitGroup) Done() {
	if !w.coop() {
		vsched.Chaos()
		w.real.Done()
		return
	}
	w.Add(-1)
}
func (w *WaitGroup) Wait() {
	if !w.coop() {
		vsched.Chaos()
		w.real.Wait()
		vsched.Chaos()
		return
	}
	vsched.BlockOn(func() bool { return w.n == 0 })
	vsched.Logf("ev %d %s wgwait %x 0 0 0 0 0 0\n", vsched.Tid(), Layer, uintptr(unsafe.Pointer(w)))
}
func (w *WaitGroup) Go(f func()) {
	w.Add(1)
	go func() { defer w.Done(); f() }()
}

type Once = sync.Once
type Cond = sync.Cond
type Map = sync.Map
type Pool = sync.Pool
type Locker = sync.Locker

func NewCond(l Locker) *Cond   { return sync.NewCond(l) }
func OnceFunc(f func()) func() { return sync.OnceFunc(f) }

// Mutex is cooperative like RWMutex (a real mutex would park the only running logical thread for ever): an exclusive RWMutex
type Mutex struct{ rw RWMutex }

func (m *Mutex) Lock()         { m.rw.Lock() }
func (m *Mutex) Unlock()       { m.rw.Unlock() }
func (m *Mutex) TryLock() bool { return m.rw.TryLock() }

type RWMutex struct {
	real     sync.RWMutex
	writer   bool
	readers  int
	wpending bool // StepLevel: a writer has announced itself
}

func lg(kind string, m *RWMutex) {
	vsched.Logf("ev %d %s %s %x 0 0 0 0 0 0\n", vsched.Tid(), Layer, kind, uintptr(unsafe.Pointer(m)))
}

func (m *RWMutex) Lock() {
	if !vsched.LayerOn(Layer) {
		vsched.Chaos()
		m.real.Lock()
		vsched.Chaos()
		return
	}
	if StepLevel {
		vsched.BlockOn(func() bool { return !m.writer && !m.wpending })
		m.wpending = true
		lg("lockpend", m)
		vsched.BlockOn(func() bool { return m.readers == 0 })
		m.wpending = false
		m.writer = true
		lg("lock", m)
		return
	}
	if m.writer || m.readers > 0 {
		vsched.Block(m)
	} else {
		vsched.Point()
	}
	for (m.writer || m.readers > 0) && !vsched.Dying() {
		vsched.Block(m)
	}
	m.writer = true
	lg("lock", m)
}

func (m *RWMutex) Unlock() {
	if !vsched.LayerOn(Layer) {
		vsched.Chaos()
		m.real.Unlock()
		vsched.Chaos()
		return
	}
	vsched.Point()
	if !m.writer {
		panic("vsync: Unlock of unlocked RWMutex")
	}
	m.writer = false
	vsched.Unblock(m)
	lg("unlock", m)
	vsched.Point() // whatever the caller still does after releasing the lock is not part of the critical section
}

func (m *RWMutex) RLock() {
	if !vsched.LayerOn(Layer) {
		vsched.Chaos()
		m.real.RLock()
		vsched.Chaos()
		return
	}
	if StepLevel {
		vsched.BlockOn(func() bool { return !m.writer && !m.wpending })
		m.readers++
		lg("rlock", m)
		return
	}
	if m.writer {
		vsched.Block(m)
	} else {
		vsched.Point()
	}
	for m.writer && !vsched.Dying() {
		vsched.Block(m)
	}
	m.readers++
	lg("rlock", m)
}

func (m *RWMutex) RUnlock() {
	if !vsched.LayerOn(Layer) {
		vsched.Chaos()
		m.real.RUnlock()
		vsched.Chaos()
		return
	}
	vsched.Point()
	if m.readers <= 0 {
		panic("vsync: RUnlock of unlocked RWMutex")
	}
	m.readers--
	if m.readers == 0 {
		vsched.Unblock(m)
	}
	lg("runlock", m)
	vsched.Point() // as in Unlock: code after the release can interleave with other threads
}

// TryLock / TryRLock never block: one scheduling point, then the outcome of the moment
func (m *RWMutex) TryLock() bool {
	if !vsched.LayerOn(Layer) {
		vsched.Chaos()
		defer vsched.Chaos()
		return m.real.TryLock()
	}
	vsched.Point()
	if m.writer || m.readers > 0 || m.wpending {
		lg("trylock-fail", m)
		return false
	}
	m.writer = true
	lg("lock", m)
	return true
}

func (m *RWMutex) TryRLock() bool {
	if !vsched.LayerOn(Layer) {
		vsched.Chaos()
		defer vsched.Chaos()
		return m.real.TryRLock()
	}
	vsched.Point()
	if m.writer || m.wpending {
		lg("tryrlock-fail", m)
		return false
	}
	m.readers++
	lg("rlock", m)
	return true
}

// WriterPending: a writer has announced itself and waits for the readers to leave (StepLevel; for harnesses)
func (m *RWMutex) WriterPending() bool { return m.wpending }

type rlocker RWMutex

func (r *rlocker) Lock()   { (*RWMutex)(r).RLock() }
func (r *rlocker) Unlock() { (*RWMutex)(r).RUnlock() }

// RLocker returns a Locker whose Lock and Unlock are RLock and RUnlock
func (m *RWMutex) RLocker() Locker { return (*rlocker)(m) }
