// Package vsync replaces sync in the two mutex-based files and in the worker pool of the instrumented copy.
// RWMutex is cooperative under vsched: every acquisition and release is a scheduling point
// and logs `ev <tid> m <lock|unlock|rlock|runlock> <addr> 0 0 0 0 0 0`; a thread that cannot
// acquire is marked blocked. Outside a controlled run it is a plain sync.RWMutex.
package vsync

import (
	"sync"
	"unsafe"

	"garrshim/vsched"
)

const Layer = "m"

// the parts of package sync that need no cooperation with the scheduler are the real ones (an EDIT of garr may use any of them and
// must still build)

// WaitGroup is the real one between chaos points (see vsched.Chaos)
type WaitGroup struct{ real sync.WaitGroup }

func (w *WaitGroup) Add(n int) { vsched.Chaos(); w.real.Add(n); vsched.Chaos() }
func (w *WaitGroup) Done()     { vsched.Chaos(); w.real.Done() }
func (w *WaitGroup) Wait()     { vsched.Chaos(); w.real.Wait(); vsched.Chaos() }
func (w *WaitGroup) Go(f func()) {
	w.Add(1)
	go func() { defer w.Done(); f() }()
}

type Once = sync.Once
type Cond = sync.Cond
type Map = sync.Map
type Pool = sync.Pool
type Locker = sync.Locker

func NewCond(l Locker) *Cond   { return sync.NewCond(l) }
func OnceFunc(f func()) func() { return sync.OnceFunc(f) }

// Mutex is cooperative like RWMutex (a real mutex would park the only running logical thread for ever): an exclusive RWMutex
type Mutex struct{ rw RWMutex }

func (m *Mutex) Lock()         { m.rw.Lock() }
func (m *Mutex) Unlock()       { m.rw.Unlock() }
func (m *Mutex) TryLock() bool { return m.rw.TryLock() }

type RWMutex struct {
	real    sync.RWMutex
	writer  bool
	readers int
}

func lg(kind string, m *RWMutex) {
	vsched.Logf("ev %d %s %s %x 0 0 0 0 0 0\n", vsched.Tid(), Layer, kind, uintptr(unsafe.Pointer(m)))
}

func (m *RWMutex) Lock() {
	if !vsched.LayerOn(Layer) {
		vsched.Chaos()
		m.real.Lock()
		vsched.Chaos()
		return
	}
	if m.writer || m.readers > 0 {
		vsched.Block(m)
	} else {
		vsched.Point()
	}
	for m.writer || m.readers > 0 {
		vsched.Block(m)
	}
	m.writer = true
	lg("lock", m)
}

func (m *RWMutex) Unlock() {
	if !vsched.LayerOn(Layer) {
		vsched.Chaos()
		m.real.Unlock()
		vsched.Chaos()
		return
	}
	vsched.Point()
	if !m.writer {
		panic("vsync: Unlock of unlocked RWMutex")
	}
	m.writer = false
	vsched.Unblock(m)
	lg("unlock", m)
	vsched.Point() // whatever the caller still does after releasing the lock is not part of the critical section
}

func (m *RWMutex) RLock() {
	if !vsched.LayerOn(Layer) {
		vsched.Chaos()
		m.real.RLock()
		vsched.Chaos()
		return
	}
	if m.writer {
		vsched.Block(m)
	} else {
		vsched.Point()
	}
	for m.writer {
		vsched.Block(m)
	}
	m.readers++
	lg("rlock", m)
}

func (m *RWMutex) RUnlock() {
	if !vsched.LayerOn(Layer) {
		vsched.Chaos()
		m.real.RUnlock()
		vsched.Chaos()
		return
	}
	vsched.Point()
	if m.readers <= 0 {
		panic("vsync: RUnlock of unlocked RWMutex")
	}
	m.readers--
	if m.readers == 0 {
		vsched.Unblock(m)
	}
	lg("runlock", m)
	vsched.Point() // as in Unlock: code after the release can interleave with other threads
}

// TryLock / TryRLock never block: one scheduling point, then the outcome of the moment
func (m *RWMutex) TryLock() bool {
	if !vsched.LayerOn(Layer) {
		vsched.Chaos()
		defer vsched.Chaos()
		return m.real.TryLock()
	}
	vsched.Point()
	if m.writer || m.readers > 0 {
		lg("trylock-fail", m)
		return false
	}
	m.writer = true
	lg("lock", m)
	return true
}

func (m *RWMutex) TryRLock() bool {
	if !vsched.LayerOn(Layer) {
		vsched.Chaos()
		defer vsched.Chaos()
		return m.real.TryRLock()
	}
	vsched.Point()
	if m.writer {
		lg("tryrlock-fail", m)
		return false
	}
	m.readers++
	lg("rlock", m)
	return true
}

type rlocker RWMutex

func (r *rlocker) Lock()   { (*RWMutex)(r).RLock() }
func (r *rlocker) Unlock() { (*RWMutex)(r).RUnlock() }

// RLocker returns a Locker whose Lock and Unlock are RLock and RUnlock
func (m *RWMutex) RLocker() Locker { return (*rlocker)(m) }
