// Package vsync replaces sync in the two mutex-based files and in the worker pool of the instrumented copy.
// RWMutex is cooperative under vsched: every acquisition and release is a scheduling point
// and logs `ev <tid> m <lock|unlock|rlock|runlock> <addr> 0 0 0 0 0 0`; a thread that cannot
// acquire is marked blocked. Outside a controlled run it is a plain sync.RWMutex.
package vsync

import (
	"sync"
	"unsafe"

	"garrshim/vsched"
)

const Layer = "m"

type WaitGroup = sync.WaitGroup
type Mutex = sync.Mutex
type Once = sync.Once

type RWMutex struct {
	real    sync.RWMutex
	writer  bool
	readers int
}

func lg(kind string, m *RWMutex) {
	vsched.Logf("ev %d %s %s %x 0 0 0 0 0 0\n", vsched.Tid(), Layer, kind, uintptr(unsafe.Pointer(m)))
}

func (m *RWMutex) Lock() {
	if !vsched.LayerOn(Layer) {
		m.real.Lock()
		return
	}
	if m.writer || m.readers > 0 {
		vsched.Block(m)
	} else {
		vsched.Point()
	}
	for m.writer || m.readers > 0 {
		vsched.Block(m)
	}
	m.writer = true
	lg("lock", m)
}

func (m *RWMutex) Unlock() {
	if !vsched.LayerOn(Layer) {
		m.real.Unlock()
		return
	}
	vsched.Point()
	if !m.writer {
		panic("vsync: Unlock of unlocked RWMutex")
	}
	m.writer = false
	vsched.Unblock(m)
	lg("unlock", m)
}

func (m *RWMutex) RLock() {
	if !vsched.LayerOn(Layer) {
		m.real.RLock()
		return
	}
	if m.writer {
		vsched.Block(m)
	} else {
		vsched.Point()
	}
	for m.writer {
		vsched.Block(m)
	}
	m.readers++
	lg("rlock", m)
}

func (m *RWMutex) RUnlock() {
	if !vsched.LayerOn(Layer) {
		m.real.RUnlock()
		return
	}
	vsched.Point()
	if m.readers <= 0 {
		panic("vsync: RUnlock of unlocked RWMutex")
	}
	m.readers--
	if m.readers == 0 {
		vsched.Unblock(m)
	}
	lg("runlock", m)
}
