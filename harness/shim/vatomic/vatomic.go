// Package vatomic is a drop-in replacement for the subset of sync/atomic that garr uses.
// Every operation is a scheduling point of vsched, performs the REAL sync/atomic operation when
// granted, and logs one event line:  ev <tid> <layer> <kind> <addr> <a> <b> <r> <len> <cap> <ok>
// The instrumenter makes one copy of this package per layer with a different Layer constant.
package vatomic

import (
	"reflect"
	"sync/atomic"
	"unsafe"

	"garrshim/vsched"
)

const Layer = "x"

func pt() bool {
	if vsched.LayerOn(Layer) {
		vsched.Point()
		return true
	}
	return false
}

func lg(on bool, kind string, addr unsafe.Pointer, a, b, r uint64, ln, cp int, ok bool) {
	if on {
		o := 0
		if ok {
			o = 1
		}
		vsched.Logf("ev %d %s %s %x %x %x %x %x %x %d\n", vsched.Tid(), Layer, kind, uintptr(addr), a, b, r, ln, cp, o)
	}
}

func LoadInt32(addr *int32) int32 {
	on := pt()
	v := atomic.LoadInt32(addr)
	lg(on, "ld32", unsafe.Pointer(addr), 0, 0, uint64(uint32(v)), 0, 0, false)
	return v
}
func StoreInt32(addr *int32, v int32) {
	on := pt()
	atomic.StoreInt32(addr, v)
	lg(on, "st32", unsafe.Pointer(addr), uint64(uint32(v)), 0, 0, 0, 0, false)
}
func AddInt32(addr *int32, d int32) int32 {
	on := pt()
	v := atomic.AddInt32(addr, d)
	lg(on, "add32", unsafe.Pointer(addr), uint64(uint32(d)), 0, uint64(uint32(v)), 0, 0, false)
	return v
}
func CompareAndSwapInt32(addr *int32, old, new int32) bool {
	on := pt()
	ok := atomic.CompareAndSwapInt32(addr, old, new)
	lg(on, "cas32", unsafe.Pointer(addr), uint64(uint32(old)), uint64(uint32(new)), 0, 0, 0, ok)
	return ok
}
func LoadInt64(addr *int64) int64 {
	on := pt()
	v := atomic.LoadInt64(addr)
	lg(on, "ld64", unsafe.Pointer(addr), 0, 0, uint64(v), 0, 0, false)
	return v
}
func StoreInt64(addr *int64, v int64) {
	on := pt()
	atomic.StoreInt64(addr, v)
	lg(on, "st64", unsafe.Pointer(addr), uint64(v), 0, 0, 0, 0, false)
}
func AddInt64(addr *int64, d int64) int64 {
	on := pt()
	v := atomic.AddInt64(addr, d)
	lg(on, "add64", unsafe.Pointer(addr), uint64(d), 0, uint64(v), 0, 0, false)
	return v
}
func CompareAndSwapInt64(addr *int64, old, new int64) bool {
	on := pt()
	ok := atomic.CompareAndSwapInt64(addr, old, new)
	lg(on, "cas64", unsafe.Pointer(addr), uint64(old), uint64(new), 0, 0, 0, ok)
	return ok
}
func LoadUint32(addr *uint32) uint32 {
	on := pt()
	v := atomic.LoadUint32(addr)
	lg(on, "ldu32", unsafe.Pointer(addr), 0, 0, uint64(v), 0, 0, false)
	return v
}
func StoreUint32(addr *uint32, v uint32) {
	on := pt()
	atomic.StoreUint32(addr, v)
	lg(on, "stu32", unsafe.Pointer(addr), uint64(v), 0, 0, 0, 0, false)
}
func AddUint32(addr *uint32, d uint32) uint32 {
	on := pt()
	v := atomic.AddUint32(addr, d)
	lg(on, "addu32", unsafe.Pointer(addr), uint64(d), 0, uint64(v), 0, 0, false)
	return v
}
func CompareAndSwapUint32(addr *uint32, old, new uint32) bool {
	on := pt()
	ok := atomic.CompareAndSwapUint32(addr, old, new)
	lg(on, "casu32", unsafe.Pointer(addr), uint64(old), uint64(new), 0, 0, 0, ok)
	return ok
}
func LoadUint64(addr *uint64) uint64 {
	on := pt()
	v := atomic.LoadUint64(addr)
	lg(on, "ldu64", unsafe.Pointer(addr), 0, 0, v, 0, 0, false)
	return v
}
func StoreUint64(addr *uint64, v uint64) {
	on := pt()
	atomic.StoreUint64(addr, v)
	lg(on, "stu64", unsafe.Pointer(addr), v, 0, 0, 0, 0, false)
}
func AddUint64(addr *uint64, d uint64) uint64 {
	on := pt()
	v := atomic.AddUint64(addr, d)
	lg(on, "addu64", unsafe.Pointer(addr), d, 0, v, 0, 0, false)
	return v
}
func CompareAndSwapUint64(addr *uint64, old, new uint64) bool {
	on := pt()
	ok := atomic.CompareAndSwapUint64(addr, old, new)
	lg(on, "casu64", unsafe.Pointer(addr), old, new, 0, 0, 0, ok)
	return ok
}
func LoadPointer(addr *unsafe.Pointer) unsafe.Pointer {
	on := pt()
	v := atomic.LoadPointer(addr)
	lg(on, "ldp", unsafe.Pointer(addr), 0, 0, uint64(uintptr(v)), 0, 0, false)
	return v
}
func StorePointer(addr *unsafe.Pointer, v unsafe.Pointer) {
	on := pt()
	atomic.StorePointer(addr, v)
	lg(on, "stp", unsafe.Pointer(addr), uint64(uintptr(v)), 0, 0, 0, 0, false)
}
func CompareAndSwapPointer(addr *unsafe.Pointer, old, new unsafe.Pointer) bool {
	on := pt()
	ok := atomic.CompareAndSwapPointer(addr, old, new)
	lg(on, "casp", unsafe.Pointer(addr), uint64(uintptr(old)), uint64(uintptr(new)), 0, 0, 0, ok)
	return ok
}

// header of an interface value: data pointer and, for slices, len and cap
func hdr(x interface{}) (uint64, int, int) {
	if x == nil {
		return 0, 0, 0
	}
	rv := reflect.ValueOf(x)
	switch rv.Kind() {
	case reflect.Slice:
		return uint64(rv.Pointer()), rv.Len(), rv.Cap()
	case reflect.Ptr, reflect.UnsafePointer:
		return uint64(rv.Pointer()), 0, 0
	}
	return 1, 0, 0
}

// Value replaces atomic.Value.
type Value struct{ v atomic.Value }

func (x *Value) Load() interface{} {
	on := pt()
	r := x.v.Load()
	p, l, c := hdr(r)
	lg(on, "vld", unsafe.Pointer(x), 0, 0, p, l, c, false)
	return r
}
func (x *Value) Store(val interface{}) {
	on := pt()
	x.v.Store(val)
	p, l, c := hdr(val)
	lg(on, "vst", unsafe.Pointer(x), p, 0, 0, l, c, false)
}
