// Package vatomic is a drop-in replacement for the subset of sync/atomic that garr uses.
// Every operation is a scheduling point of vsched, performs the REAL sync/atomic operation when
// granted, and logs one event line:  ev <tid> <layer> <kind> <addr> <a> <b> <r> <len> <cap> <ok>
// The instrumenter makes one copy of this package per layer with a different Layer constant.
package vatomic

import (
	"reflect"
	"sync/atomic"
	"unsafe"

	"garrshim/vsched"
)

const Layer = "x"

func pt() bool {
	if vsched.LayerOn(Layer) {
		vsched.Point()
		return true
	}
	vsched.Chaos() // free-running: widen the window before the operation (no-op unless chaos is switched on)
	return false
}

func lg(on bool, kind string, addr unsafe.Pointer, a, b, r uint64, ln, cp int, ok bool) {
	if !on {
		vsched.Chaos() // … and after it
		return
	}
	if on {
		o := 0
		if ok {
			o = 1
		}
		vsched.Logf("ev %d %s %s %x %x %x %x %x %x %d\n", vsched.Tid(), Layer, kind, uintptr(addr), a, b, r, ln, cp, o)
		if vsched.PostOp {
			vsched.Point()
		}
	}
}

func LoadInt32(addr *int32) int32 {
	on := pt()
	v := atomic.LoadInt32(addr)
	lg(on, "ld32", unsafe.Pointer(addr), 0, 0, uint64(uint32(v)), 0, 0, false)
	return v
}
func StoreInt32(addr *int32, v int32) {
	on := pt()
	atomic.StoreInt32(addr, v)
	lg(on, "st32", unsafe.Pointer(addr), uint64(uint32(v)), 0, 0, 0, 0, false)
}
func AddInt32(addr *int32, d int32) int32 {
	on := pt()
	v := atomic.AddInt32(addr, d)
	lg(on, "add32", unsafe.Pointer(addr), uint64(uint32(d)), 0, uint64(uint32(v)), 0, 0, false)
	return v
}
func CompareAndSwapInt32(addr *int32, old, new int32) bool {
	on := pt()
	ok := atomic.CompareAndSwapInt32(addr, old, new)
	lg(on, "cas32", unsafe.Pointer(addr), uint64(uint32(old)), uint64(uint32(new)), 0, 0, 0, ok)
	return ok
}
func LoadInt64(addr *int64) int64 {
	on := pt()
	v := atomic.LoadInt64(addr)
	lg(on, "ld64", unsafe.Pointer(addr), 0, 0, uint64(v), 0, 0, false)
	return v
}
func StoreInt64(addr *int64, v int64) {
	on := pt()
	atomic.StoreInt64(addr, v)
	lg(on, "st64", unsafe.Pointer(addr), uint64(v), 0, 0, 0, 0, false)
}
func AddInt64(addr *int64, d int64) int64 {
	on := pt()
	v := atomic.AddInt64(addr, d)
	lg(on, "add64", unsafe.Pointer(addr), uint64(d), 0, uint64(v), 0, 0, false)
	return v
}
func CompareAndSwapInt64(addr *int64, old, new int64) bool {
	on := pt()
	ok := atomic.CompareAndSwapInt64(addr, old, new)
	lg(on, "cas64", unsafe.Pointer(addr), uint64(old), uint64(new), 0, 0, 0, ok)
	return ok
}
func LoadUint32(addr *uint32) uint32 {
	on := pt()
	v := atomic.LoadUint32(addr)
	lg(on, "ldu32", unsafe.Pointer(addr), 0, 0, uint64(v), 0, 0, false)
	return v
}
func StoreUint32(addr *uint32, v uint32) {
	on := pt()
	atomic.StoreUint32(addr, v)
	lg(on, "stu32", unsafe.Pointer(addr), uint64(v), 0, 0, 0, 0, false)
}
func AddUint32(addr *uint32, d uint32) uint32 {
	on := pt()
	v := atomic.AddUint32(addr, d)
	lg(on, "addu32", unsafe.Pointer(addr), uint64(d), 0, uint64(v), 0, 0, false)
	return v
}
func CompareAndSwapUint32(addr *uint32, old, new uint32) bool {
	on := pt()
	ok := atomic.CompareAndSwapUint32(addr, old, new)
	lg(on, "casu32", unsafe.Pointer(addr), uint64(old), uint64(new), 0, 0, 0, ok)
	return ok
}
func LoadUint64(addr *uint64) uint64 {
	on := pt()
	v := atomic.LoadUint64(addr)
	lg(on, "ldu64", unsafe.Pointer(addr), 0, 0, v, 0, 0, false)
	return v
}
func StoreUint64(addr *uint64, v uint64) {
	on := pt()
	atomic.StoreUint64(addr, v)
	lg(on, "stu64", unsafe.Pointer(addr), v, 0, 0, 0, 0, false)
}
func AddUint64(addr *uint64, d uint64) uint64 {
	on := pt()
	v := atomic.AddUint64(addr, d)
	lg(on, "addu64", unsafe.Pointer(addr), d, 0, v, 0, 0, false)
	return v
}
func CompareAndSwapUint64(addr *uint64, old, new uint64) bool {
	on := pt()
	ok := atomic.CompareAndSwapUint64(addr, old, new)
	lg(on, "casu64", unsafe.Pointer(addr), old, new, 0, 0, 0, ok)
	return ok
}
func LoadPointer(addr *unsafe.Pointer) unsafe.Pointer {
	on := pt()
	v := atomic.LoadPointer(addr)
	lg(on, "ldp", unsafe.Pointer(addr), 0, 0, uint64(uintptr(v)), 0, 0, false)
	return v
}
func StorePointer(addr *unsafe.Pointer, v unsafe.Pointer) {
	on := pt()
	atomic.StorePointer(addr, v)
	lg(on, "stp", unsafe.Pointer(addr), uint64(uintptr(v)), 0, 0, 0, 0, false)
}
func CompareAndSwapPointer(addr *unsafe.Pointer, old, new unsafe.Pointer) bool {
	on := pt()
	ok := atomic.CompareAndSwapPointer(addr, old, new)
	lg(on, "casp", unsafe.Pointer(addr), uint64(uintptr(old)), uint64(uintptr(new)), 0, 0, 0, ok)
	return ok
}

// header of an interface value: data pointer and, for slices, len and cap
func hdr(x interface{}) (uint64, int, int) {
	if x == nil {
		return 0, 0, 0
	}
	rv := reflect.ValueOf(x)
	switch rv.Kind() {
	case reflect.Slice:
		return uint64(rv.Pointer()), rv.Len(), rv.Cap()
	case reflect.Ptr, reflect.UnsafePointer:
		return uint64(rv.Pointer()), 0, 0
	}
	return 1, 0, 0
}

// Value replaces atomic.Value.
type Value struct{ v atomic.Value }

func (x *Value) Load() interface{} {
	on := pt()
	r := x.v.Load()
	p, l, c := hdr(r)
	lg(on, "vld", unsafe.Pointer(x), 0, 0, p, l, c, false)
	return r
}
func (x *Value) Store(val interface{}) {
	on := pt()
	x.v.Store(val)
	p, l, c := hdr(val)
	lg(on, "vst", unsafe.Pointer(x), p, 0, 0, l, c, false)
}

// ---- the rest of the sync/atomic API. garr itself does not use it; an EDIT of garr may, and must still build, yield and be logged
// (the models know none of these event kinds, so the acceptor rejects at the first of them; the Go monitors judge the run).

func SwapInt32(addr *int32, new int32) int32 {
	on := pt()
	v := atomic.SwapInt32(addr, new)
	lg(on, "swp32", unsafe.Pointer(addr), uint64(uint32(new)), 0, uint64(uint32(v)), 0, 0, false)
	return v
}
func SwapInt64(addr *int64, new int64) int64 {
	on := pt()
	v := atomic.SwapInt64(addr, new)
	lg(on, "swp64", unsafe.Pointer(addr), uint64(new), 0, uint64(v), 0, 0, false)
	return v
}
func SwapUint32(addr *uint32, new uint32) uint32 {
	on := pt()
	v := atomic.SwapUint32(addr, new)
	lg(on, "swpu32", unsafe.Pointer(addr), uint64(new), 0, uint64(v), 0, 0, false)
	return v
}
func SwapUint64(addr *uint64, new uint64) uint64 {
	on := pt()
	v := atomic.SwapUint64(addr, new)
	lg(on, "swpu64", unsafe.Pointer(addr), new, 0, v, 0, 0, false)
	return v
}
func SwapPointer(addr *unsafe.Pointer, new unsafe.Pointer) unsafe.Pointer {
	on := pt()
	v := atomic.SwapPointer(addr, new)
	lg(on, "swpp", unsafe.Pointer(addr), uint64(uintptr(new)), 0, uint64(uintptr(v)), 0, 0, false)
	return v
}
func LoadUintptr(addr *uintptr) uintptr {
	on := pt()
	v := atomic.LoadUintptr(addr)
	lg(on, "lduptr", unsafe.Pointer(addr), 0, 0, uint64(v), 0, 0, false)
	return v
}
func StoreUintptr(addr *uintptr, v uintptr) {
	on := pt()
	atomic.StoreUintptr(addr, v)
	lg(on, "stuptr", unsafe.Pointer(addr), uint64(v), 0, 0, 0, 0, false)
}
func AddUintptr(addr *uintptr, d uintptr) uintptr {
	on := pt()
	v := atomic.AddUintptr(addr, d)
	lg(on, "adduptr", unsafe.Pointer(addr), uint64(d), 0, uint64(v), 0, 0, false)
	return v
}
func SwapUintptr(addr *uintptr, new uintptr) uintptr {
	on := pt()
	v := atomic.SwapUintptr(addr, new)
	lg(on, "swpuptr", unsafe.Pointer(addr), uint64(new), 0, uint64(v), 0, 0, false)
	return v
}
func CompareAndSwapUintptr(addr *uintptr, old, new uintptr) bool {
	on := pt()
	ok := atomic.CompareAndSwapUintptr(addr, old, new)
	lg(on, "casuptr", unsafe.Pointer(addr), uint64(old), uint64(new), 0, 0, 0, ok)
	return ok
}
func AndInt32(addr *int32, mask int32) int32 {
	on := pt()
	v := atomic.AndInt32(addr, mask)
	lg(on, "and32", unsafe.Pointer(addr), uint64(uint32(mask)), 0, uint64(uint32(v)), 0, 0, false)
	return v
}
func OrInt32(addr *int32, mask int32) int32 {
	on := pt()
	v := atomic.OrInt32(addr, mask)
	lg(on, "or32", unsafe.Pointer(addr), uint64(uint32(mask)), 0, uint64(uint32(v)), 0, 0, false)
	return v
}
func AndUint32(addr *uint32, mask uint32) uint32 {
	on := pt()
	v := atomic.AndUint32(addr, mask)
	lg(on, "andu32", unsafe.Pointer(addr), uint64(mask), 0, uint64(v), 0, 0, false)
	return v
}
func OrUint32(addr *uint32, mask uint32) uint32 {
	on := pt()
	v := atomic.OrUint32(addr, mask)
	lg(on, "oru32", unsafe.Pointer(addr), uint64(mask), 0, uint64(v), 0, 0, false)
	return v
}
func AndInt64(addr *int64, mask int64) int64 {
	on := pt()
	v := atomic.AndInt64(addr, mask)
	lg(on, "and64", unsafe.Pointer(addr), uint64(mask), 0, uint64(v), 0, 0, false)
	return v
}
func OrInt64(addr *int64, mask int64) int64 {
	on := pt()
	v := atomic.OrInt64(addr, mask)
	lg(on, "or64", unsafe.Pointer(addr), uint64(mask), 0, uint64(v), 0, 0, false)
	return v
}
func AndUint64(addr *uint64, mask uint64) uint64 {
	on := pt()
	v := atomic.AndUint64(addr, mask)
	lg(on, "andu64", unsafe.Pointer(addr), mask, 0, v, 0, 0, false)
	return v
}
func OrUint64(addr *uint64, mask uint64) uint64 {
	on := pt()
	v := atomic.OrUint64(addr, mask)
	lg(on, "oru64", unsafe.Pointer(addr), mask, 0, v, 0, 0, false)
	return v
}

func (x *Value) Swap(new interface{}) interface{} {
	on := pt()
	r := x.v.Swap(new)
	p, l, c := hdr(new)
	lg(on, "vswp", unsafe.Pointer(x), p, 0, 0, l, c, false)
	return r
}
func (x *Value) CompareAndSwap(old, new interface{}) bool {
	on := pt()
	ok := x.v.CompareAndSwap(old, new)
	p, l, c := hdr(new)
	lg(on, "vcas", unsafe.Pointer(x), p, 0, 0, l, c, ok)
	return ok
}

// typed atomics, built on the functions above (so they yield and log like them)

type Int32 struct{ v int32 }

func (x *Int32) Load() int32                        { return LoadInt32(&x.v) }
func (x *Int32) Store(v int32)                      { StoreInt32(&x.v, v) }
func (x *Int32) Add(d int32) int32                  { return AddInt32(&x.v, d) }
func (x *Int32) Swap(v int32) int32                 { return SwapInt32(&x.v, v) }
func (x *Int32) CompareAndSwap(old, new int32) bool { return CompareAndSwapInt32(&x.v, old, new) }
func (x *Int32) And(m int32) int32                  { return AndInt32(&x.v, m) }
func (x *Int32) Or(m int32) int32                   { return OrInt32(&x.v, m) }

type Int64 struct{ v int64 }

func (x *Int64) Load() int64                        { return LoadInt64(&x.v) }
func (x *Int64) Store(v int64)                      { StoreInt64(&x.v, v) }
func (x *Int64) Add(d int64) int64                  { return AddInt64(&x.v, d) }
func (x *Int64) Swap(v int64) int64                 { return SwapInt64(&x.v, v) }
func (x *Int64) CompareAndSwap(old, new int64) bool { return CompareAndSwapInt64(&x.v, old, new) }
func (x *Int64) And(m int64) int64                  { return AndInt64(&x.v, m) }
func (x *Int64) Or(m int64) int64                   { return OrInt64(&x.v, m) }

type Uint32 struct{ v uint32 }

func (x *Uint32) Load() uint32                        { return LoadUint32(&x.v) }
func (x *Uint32) Store(v uint32)                      { StoreUint32(&x.v, v) }
func (x *Uint32) Add(d uint32) uint32                 { return AddUint32(&x.v, d) }
func (x *Uint32) Swap(v uint32) uint32                { return SwapUint32(&x.v, v) }
func (x *Uint32) CompareAndSwap(old, new uint32) bool { return CompareAndSwapUint32(&x.v, old, new) }
func (x *Uint32) And(m uint32) uint32                 { return AndUint32(&x.v, m) }
func (x *Uint32) Or(m uint32) uint32                  { return OrUint32(&x.v, m) }

type Uint64 struct{ v uint64 }

func (x *Uint64) Load() uint64                        { return LoadUint64(&x.v) }
func (x *Uint64) Store(v uint64)                      { StoreUint64(&x.v, v) }
func (x *Uint64) Add(d uint64) uint64                 { return AddUint64(&x.v, d) }
func (x *Uint64) Swap(v uint64) uint64                { return SwapUint64(&x.v, v) }
func (x *Uint64) CompareAndSwap(old, new uint64) bool { return CompareAndSwapUint64(&x.v, old, new) }
func (x *Uint64) And(m uint64) uint64                 { return AndUint64(&x.v, m) }
func (x *Uint64) Or(m uint64) uint64                  { return OrUint64(&x.v, m) }

type Uintptr struct{ v uintptr }

func (x *Uintptr) Load() uintptr                        { return LoadUintptr(&x.v) }
func (x *Uintptr) Store(v uintptr)                      { StoreUintptr(&x.v, v) }
func (x *Uintptr) Add(d uintptr) uintptr                { return AddUintptr(&x.v, d) }
func (x *Uintptr) Swap(v uintptr) uintptr               { return SwapUintptr(&x.v, v) }
func (x *Uintptr) CompareAndSwap(old, new uintptr) bool { return CompareAndSwapUintptr(&x.v, old, new) }

type Bool struct{ v uint32 }

func b32(b bool) uint32 {
	if b {
		return 1
	}
	return 0
}
func (x *Bool) Load() bool       { return LoadUint32(&x.v) != 0 }
func (x *Bool) Store(v bool)     { StoreUint32(&x.v, b32(v)) }
func (x *Bool) Swap(v bool) bool { return SwapUint32(&x.v, b32(v)) != 0 }
func (x *Bool) CompareAndSwap(old, new bool) bool {
	return CompareAndSwapUint32(&x.v, b32(old), b32(new))
}

type Pointer[T any] struct{ v unsafe.Pointer }

func (x *Pointer[T]) Load() *T     { return (*T)(LoadPointer(&x.v)) }
func (x *Pointer[T]) Store(v *T)   { StorePointer(&x.v, unsafe.Pointer(v)) }
func (x *Pointer[T]) Swap(v *T) *T { return (*T)(SwapPointer(&x.v, unsafe.Pointer(v))) }
func (x *Pointer[T]) CompareAndSwap(old, new *T) bool {
	return CompareAndSwapPointer(&x.v, unsafe.Pointer(old), unsafe.Pointer(new))
}
