// Package vchan is the target of the source-to-source instrumenter for worker-pool/pool.go (harness/poolstep/rewrite): channels, select,
// go statements, timers and context cancellation of package workerpool become calls into this package, so that each of them is ONE
// scheduling point of vsched and ONE trace line (prefix `ch`):
//
//	ch <tid> send <chan> <val>            ch <tid> recv <chan> <val|-> <ok>      ch <tid> close <chan>
//	ch <tid> fsend <val> <kind>           send on a REAL buffered channel (a task's result channel), granted only while len < cap
//	ch <tid> sel <k|d> <what…>            a select: the case taken (index in source order, d = default) followed by the operation
//	                                      (send <chan> <val> | recv <chan> <val|-> <ok> | done | timer <id> | default)
//	ch <tid> go <newtid> <func>           ch <tid> begin        ch <tid> exit
//	ch <tid> cancel <ctx>                 the CancelFunc of the <ctx>-th context made by WithCancel
//	ch <tid> tnew <id> <deadline>         ch <tid> tstop <id> <0|1>    ch <tid> treset <id> <deadline> <0|1>    ch <tid> trecv <id>
//	ch <tid> panic <what>                 the operation raises a Go run-time panic (send on / close of a closed channel)
//
// Only one logical thread runs at a time, so a channel is a plain buffer plus a closed flag. Values are named by the harness (Ident).
// Virtual time (Now) is owned by the harness.
package vchan

import (
	"context"
	"fmt"
	"reflect"
	"time"

	"garrshim/vsched"
)

// set by the harness before each run
var (
	Ident func(v interface{}) string // names a value sent or received (task id, result kind)
	Pick  func(n int) int            // the scheduler's choice among n ready select cases
	Now   int64                      // virtual time in nanoseconds
	// Observe tells the harness' monitors about close / go / begin / exit events (kind, acting thread, new thread or channel id)
	Observe func(kind string, tid, arg int)
)

func observe(kind string, arg int) {
	if Observe != nil {
		Observe(kind, vsched.Tid(), arg)
	}
}

var (
	nchan, nctx, ntimer int
	timers              []*Timer
)

// Reset starts a new run: object numbering and virtual time start again.
func Reset() {
	nchan, nctx, ntimer, Now, timers = 0, 0, 0, 0, nil
}

// Timers returns the timers created in this run (the harness advances time towards their deadlines at the end of a run).
func Timers() []*Timer { return timers }

func ident(v interface{}) string {
	if Ident == nil {
		return "?"
	}
	return Ident(v)
}

func must() {
	if !vsched.Active() {
		panic("vchan: instrumented worker-pool code used outside a controlled run")
	}
}

// ------------------------------------------------------------------------------------------------ channels

type Chan[T any] struct {
	id     int
	buf    []T
	cap    int
	closed bool
}

// Make is `make(chan T, n)`; unbuffered channels are not supported (a rendezvous is not one step of one thread).
func Make[T any](n int) *Chan[T] {
	if n < 1 {
		panic("vchan: unbuffered channel: construct not supported by the step-level instrumentation")
	}
	c := &Chan[T]{id: nchan, cap: n}
	nchan++
	return c
}

func (c *Chan[T]) Len() int { return len(c.buf) }
func (c *Chan[T]) Cap() int { return c.cap }

func (c *Chan[T]) sendReady() bool { return c != nil && (c.closed || len(c.buf) < c.cap) }
func (c *Chan[T]) recvReady() bool { return c != nil && (c.closed || len(c.buf) > 0) }

func (c *Chan[T]) Send(v T) {
	must()
	vsched.BlockOn(c.sendReady)
	if vsched.Dying() {
		return
	}
	if c.closed {
		vsched.Logf("ch %d panic send\n", vsched.Tid())
		vsched.Crash("send on closed channel")
	}
	c.buf = append(c.buf, v)
	vsched.Logf("ch %d send %d %s\n", vsched.Tid(), c.id, ident(v))
}

func (c *Chan[T]) take() (v T, ok bool) {
	if len(c.buf) > 0 {
		v = c.buf[0]
		c.buf = c.buf[1:]
		return v, true
	}
	return v, false
}

func (c *Chan[T]) Recv2() (v T, ok bool) {
	must()
	vsched.BlockOn(c.recvReady)
	if vsched.Dying() {
		return
	}
	v, ok = c.take()
	if ok {
		vsched.Logf("ch %d recv %d %s 1\n", vsched.Tid(), c.id, ident(v))
	} else {
		vsched.Logf("ch %d recv %d - 0\n", vsched.Tid(), c.id)
	}
	return
}

func (c *Chan[T]) Recv() T {
	v, _ := c.Recv2()
	return v
}

func (c *Chan[T]) Close() {
	must()
	vsched.Point()
	if vsched.Dying() {
		return
	}
	if c == nil || c.closed {
		vsched.Logf("ch %d panic close\n", vsched.Tid())
		vsched.Crash("close of closed channel")
	}
	c.closed = true
	vsched.Logf("ch %d close %d\n", vsched.Tid(), c.id)
	observe("close", c.id)
}

// SendReal is `ch <- v` on a real buffered channel that stays real because the package's exported API hands it out (Task.Result()).
// Only the instrumented code sends on it, one logical thread at a time: granted only while the buffer has room.
func SendReal[T any](ch chan T, v T) {
	must()
	vsched.BlockOn(func() bool { return len(ch) < cap(ch) })
	if vsched.Dying() {
		return
	}
	ch <- v
	vsched.Logf("ch %d fsend %s %s\n", vsched.Tid(), ident(ch), ident(v))
}

// ------------------------------------------------------------------------------------------------ select

// Case is one communication clause of a select statement.
type Case interface {
	ready() bool
	fire() // performs the communication and logs the rest of the `sel` line; may raise the Go panic
}

type SendCase[T any] struct {
	c *Chan[T]
	v T
}

func CaseSend[T any](c *Chan[T], v T) *SendCase[T] { return &SendCase[T]{c, v} }
func (s *SendCase[T]) ready() bool                 { return s.c.sendReady() }
func (s *SendCase[T]) fire() {
	if s.c.closed {
		vsched.Logf("panic send\n")
		vsched.Crash("send on closed channel")
	}
	s.c.buf = append(s.c.buf, s.v)
	vsched.Logf("send %d %s\n", s.c.id, ident(s.v))
}

type RecvCase[T any] struct {
	c  *Chan[T]
	V  T
	Ok bool
}

func CaseRecv[T any](c *Chan[T]) *RecvCase[T] { return &RecvCase[T]{c: c} }
func (r *RecvCase[T]) ready() bool            { return r.c.recvReady() }
func (r *RecvCase[T]) fire() {
	r.V, r.Ok = r.c.take()
	if r.Ok {
		vsched.Logf("recv %d %s 1\n", r.c.id, ident(r.V))
	} else {
		vsched.Logf("recv %d - 0\n", r.c.id)
	}
}

// DoneCase is `case <-ctx.Done():` — the real context package stays; the case is ready iff the context is done.
type DoneCase struct{ ctx context.Context }

func CaseDone(ctx context.Context) *DoneCase { return &DoneCase{ctx} }
func (d *DoneCase) ready() bool              { return d.ctx.Err() != nil }
func (d *DoneCase) fire()                    { vsched.Logf("done\n") }

type TimerCase struct{ t *Timer }

func CaseTimer(t *Timer) *TimerCase { return &TimerCase{t} }
func (c *TimerCase) ready() bool    { return c.t.fired() }
func (c *TimerCase) fire() {
	c.t.active = false
	vsched.Logf("timer %d\n", c.t.id)
}

// Select is a whole select statement: ONE scheduling point, granted when some case is ready (or at once with a default clause);
// the scheduler picks among the ready cases; default only if none is ready. Returns the index of the case taken, -1 = default.
func Select(hasDefault bool, cases ...Case) int {
	must()
	anyReady := func() bool {
		for _, c := range cases {
			if c.ready() {
				return true
			}
		}
		return false
	}
	if hasDefault {
		vsched.Point()
	} else {
		vsched.BlockOn(anyReady)
	}
	if vsched.Dying() {
		return -2
	}
	var rdy []int
	for i, c := range cases {
		if c.ready() {
			rdy = append(rdy, i)
		}
	}
	if len(rdy) == 0 {
		vsched.Logf("ch %d sel d default\n", vsched.Tid())
		return -1
	}
	k := rdy[0]
	if len(rdy) > 1 && Pick != nil {
		k = rdy[Pick(len(rdy))]
	}
	vsched.Logf("ch %d sel %d ", vsched.Tid(), k)
	cases[k].fire()
	return k
}

// ------------------------------------------------------------------------------------------------ go, context

// Go is `go f(…)`: a new logical thread that starts running when the scheduler first picks it.
func Go(name string, f func()) {
	must()
	vsched.Point()
	if vsched.Dying() {
		return
	}
	id := vsched.Spawn(func() {
		vsched.Logf("ch %d begin\n", vsched.Tid())
		observe("begin", 0)
		f()
		vsched.Logf("ch %d exit\n", vsched.Tid())
		observe("exit", 0)
	})
	vsched.Logf("ch %d go %d %s\n", vsched.Tid(), id, name)
	observe("go", id)
}

// WithCancel is context.WithCancel whose CancelFunc is a scheduling point (the real cancel closes Done synchronously).
func WithCancel(parent context.Context) (context.Context, context.CancelFunc) {
	ctx, cancel := context.WithCancel(parent)
	id := nctx
	nctx++
	return ctx, func() {
		if !vsched.Active() {
			cancel()
			return
		}
		vsched.Point()
		if vsched.Dying() {
			return
		}
		cancel()
		vsched.Logf("ch %d cancel %d\n", vsched.Tid(), id)
	}
}

// ------------------------------------------------------------------------------------------------ timers (virtual time)

// Timer replaces *time.Timer: a deadline in virtual time. Go 1.23 semantics (the module says go 1.23): Stop and Reset report whether the
// timer was still armed, counting a timer that has expired but whose value nobody received; after Stop nothing is left in C.
type Timer struct {
	id       int
	active   bool
	deadline int64
}

func (t *Timer) fired() bool { return t.active && t.deadline <= Now }

// Deadline / Armed are for the harness.
func (t *Timer) Deadline() int64 { return t.deadline }
func (t *Timer) Armed() bool     { return t.active }

func NewTimer(d time.Duration) *Timer {
	must()
	vsched.Point()
	t := &Timer{id: ntimer, active: true, deadline: Now + int64(d)}
	ntimer++
	timers = append(timers, t)
	vsched.Logf("ch %d tnew %d %d\n", vsched.Tid(), t.id, t.deadline)
	return t
}

func b2i(b bool) int {
	if b {
		return 1
	}
	return 0
}

func (t *Timer) Stop() bool {
	must()
	vsched.Point()
	r := t.active
	t.active = false
	vsched.Logf("ch %d tstop %d %d\n", vsched.Tid(), t.id, b2i(r))
	return r
}

func (t *Timer) Reset(d time.Duration) bool {
	must()
	vsched.Point()
	r := t.active
	t.active = true
	t.deadline = Now + int64(d)
	vsched.Logf("ch %d treset %d %d %d\n", vsched.Tid(), t.id, t.deadline, b2i(r))
	return r
}

// RecvC is `<-t.C`
func (t *Timer) RecvC() time.Time {
	must()
	vsched.BlockOn(t.fired)
	if vsched.Dying() {
		return time.Time{}
	}
	t.active = false
	vsched.Logf("ch %d trecv %d\n", vsched.Tid(), t.id)
	return time.Time{}
}

// ChanKey identifies a real channel by its address (for the harness' Ident).
func ChanKey(ch interface{}) uintptr { return reflect.ValueOf(ch).Pointer() }

var _ = fmt.Sprint
