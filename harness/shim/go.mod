module garrshim

go 1.23
