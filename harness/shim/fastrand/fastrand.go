// Package fastrand replaces github.com/valyala/fastrand in the instrumented copy: every draw is
// decided by the harness (Next), is a scheduling point under vsched, and is logged.
package fastrand

import "garrshim/vsched"

// Next supplies the value of the next draw. Must be set by the harness.
var Next func() uint32

// Draws counts the draws since the harness last reset it.
var Draws int

const Layer = "r"

func Uint32() uint32 {
	on := vsched.LayerOn(Layer)
	if on {
		vsched.Point()
	}
	if Next == nil {
		panic("fastrand shim: Next not set")
	}
	v := Next()
	Draws++
	if on {
		vsched.Logf("ev %d r rand 0 0 0 %x 0 0 0\n", vsched.Tid(), v)
	}
	return v
}

func Uint32n(maxN uint32) uint32 {
	x := Uint32()
	return uint32((uint64(x) * uint64(maxN)) >> 32)
}
