module github.com/valyala/fastrand

go 1.23

require garrshim v0.0.0
