// Package vsched is a deterministic token-passing scheduler for logical threads.
// Exactly one logical thread runs between two scheduling points (Point); the schedule is
// whatever the picker returns. Used by the shims (vatomic, vsync, fastrand) that replace
// sync/atomic, sync and fastrand in the instrumented scratch copy of the repository.
package vsched

import (
	"bufio"
	"fmt"
	"runtime"
	"sync/atomic"
	"time"
)

// ChaosPerMille > 0 switches on "chaos" for code that runs OUTSIDE a controlled run (free-running stress on the real scheduler): every
// shimmed atomic / lock / wait-group operation is then preceded and followed, with this probability, by a yield, a short spin or a sleep
// of up to 200µs. This widens exactly the windows between adjacent synchronisation statements (a state CAS and the cancel after it, an
// Add(+1) and its undo, an unlock and the statement after it), which the real scheduler otherwise opens for nanoseconds only.
// The delays are bounded and change no result: any behaviour seen with chaos is a behaviour of the code.
var ChaosPerMille int32

// PostOp (controlled runs): the shimmed atomic operations yield once more AFTER the operation, so that the plain code between an atomic
// access and the next one (a read of a field the access just won, a copy into a table it just published) can interleave with the other
// threads. Set by the harness before Run for a share of the runs; no trace event, the models are unaffected.
var PostOp bool

var chaosCtr uint64

// Chaos is called by the shims before and after an operation when no controlled run is active.
func Chaos() {
	p := atomic.LoadInt32(&ChaosPerMille)
	if p == 0 {
		return
	}
	x := atomic.AddUint64(&chaosCtr, 0x9E3779B97F4A7C15)
	x ^= x >> 30
	x *= 0xBF58476D1CE4E5B9
	x ^= x >> 27
	x *= 0x94D049BB133111EB
	x ^= x >> 31
	if int32(x%1000) >= p {
		return
	}
	switch (x >> 12) % 4 {
	case 0:
		runtime.Gosched()
	case 1:
		for t := time.Now(); time.Since(t) < time.Duration(1+(x>>16)%20)*time.Microsecond; {
		}
	default:
		time.Sleep(time.Duration(1+(x>>16)%200) * time.Microsecond)
	}
}

type thread struct {
	id      int
	resume  chan struct{}
	done    bool
	blocked interface{} // non-nil: waiting for this lock
	steps   int
}

// Sched is one controlled run.
type Sched struct {
	threads []*thread
	yield   chan struct{}
	cur     *thread
	W       *bufio.Writer
	abort   bool
	Layers  map[string]bool // nil = all layers yield
}

var active *Sched

// LayerOn reports whether operations of this layer are scheduling points in the current run.
func LayerOn(layer string) bool {
	s := active
	if s == nil || s.cur == nil {
		return false
	}
	if s.Layers == nil {
		return true
	}
	return s.Layers[layer]
}

// Point parks the calling logical thread until it is granted its next step.
func Point() {
	s := active
	if s == nil || s.cur == nil {
		return
	}
	t := s.cur
	s.yield <- struct{}{}
	<-t.resume
	if s.abort {
		t.done = true
		s.yield <- struct{}{}
		runtime.Goexit()
	}
}

// Block marks the current thread as waiting for lock m and parks it; returns when granted again.
func Block(m interface{}) {
	s := active
	if s == nil || s.cur == nil {
		panic("vsched.Block outside a controlled run")
	}
	s.cur.blocked = m
	Point()
}

// Unblock makes every thread waiting for m runnable again.
func Unblock(m interface{}) {
	s := active
	if s == nil {
		return
	}
	for _, t := range s.threads {
		if t.blocked == m {
			t.blocked = nil
		}
	}
}

// Logf appends a line to the trace of the current run.
func Logf(format string, args ...interface{}) {
	if s := active; s != nil && s.cur != nil {
		fmt.Fprintf(s.W, format, args...)
	}
}

// Tid is the id of the running logical thread.
func Tid() int { return active.cur.id }

// Active reports whether the caller runs inside a controlled run.
func Active() bool { return active != nil && active.cur != nil }

// Result of a run.
type Result struct {
	Steps     int
	PerThread []int
	Done      []bool
	Deadlock  bool // somebody not done, nobody runnable, nobody frozen by the picker
	Budget    bool // step budget exhausted
}

// Run executes bodies under pick. pick receives the runnable thread ids and the number of steps
// granted so far and returns one of the ids, or -1 to end the run (remaining threads are aborted:
// this is how a frozen thread is never scheduled again).
func Run(w *bufio.Writer, layers map[string]bool, bodies []func(), budget int, pick func(runnable []int, step int) int) Result {
	s := &Sched{yield: make(chan struct{}), W: w, Layers: layers}
	active = s
	defer func() { active = nil }()
	for i, b := range bodies {
		t := &thread{id: i, resume: make(chan struct{})}
		s.threads = append(s.threads, t)
		b := b
		go func() {
			<-t.resume
			if !s.abort {
				b()
			}
			t.done = true
			s.yield <- struct{}{}
		}()
	}
	// bring every thread to its first Point (or completion) in id order; no shared access happens here
	for _, t := range s.threads {
		s.cur = t
		t.resume <- struct{}{}
		<-s.yield
		s.cur = nil
	}
	res := Result{PerThread: make([]int, len(bodies)), Done: make([]bool, len(bodies))}
	for {
		var runnable []int
		pending := false
		for _, t := range s.threads {
			if !t.done {
				pending = true
				if t.blocked == nil {
					runnable = append(runnable, t.id)
				}
			}
		}
		if !pending {
			break
		}
		if len(runnable) == 0 {
			res.Deadlock = true
			break
		}
		if res.Steps >= budget {
			res.Budget = true
			break
		}
		id := pick(runnable, res.Steps)
		if id < 0 {
			break
		}
		t := s.threads[id]
		s.cur = t
		t.resume <- struct{}{}
		<-s.yield
		s.cur = nil
		res.Steps++
		t.steps++
	}
	for i, t := range s.threads {
		res.PerThread[i] = t.steps
		res.Done[i] = t.done
	}
	// abort whatever is still parked
	s.abort = true
	for _, t := range s.threads {
		if !t.done {
			s.cur = t
			t.resume <- struct{}{}
			<-s.yield
			s.cur = nil
		}
	}
	return res
}
