// Package vsched is a deterministic token-passing scheduler for logical threads.
// Exactly one logical thread runs between two scheduling points (Point); the schedule is
// whatever the picker returns. Used by the shims (vatomic, vsync, fastrand) that replace
// sync/atomic, sync and fastrand in the instrumented scratch copy of the repository.
package vsched

import (
	"bufio"
	"fmt"
	"runtime"
	"sync/atomic"
	"time"
)

// ChaosPerMille > 0 switches on "chaos" for code that runs OUTSIDE a controlled run (free-running stress on the real scheduler): every
// shimmed atomic / lock / wait-group operation is then preceded and followed, with this probability, by a yield, a short spin or a sleep
// of up to 200µs. This widens exactly the windows between adjacent synchronisation statements (a state CAS and the cancel after it, an
// Add(+1) and its undo, an unlock and the statement after it), which the real scheduler otherwise opens for nanoseconds only.
// The delays are bounded and change no result: any behaviour seen with chaos is a behaviour of the code.
var ChaosPerMille int32

// PostOp (controlled runs): the shimmed atomic operations yield once more AFTER the operation, so that the plain code between an atomic
// access and the next one (a read of a field the access just won, a copy into a table it just published) can interleave with the other
// threads. Set by the harness before Run for a share of the runs; no trace event, the models are unaffected.
var PostOp bool

var chaosCtr uint64

// Chaos is called by the shims before and after an operation when no controlled run is active.
func Chaos() {
	p := atomic.LoadInt32(&ChaosPerMille)
	if p == 0 {
		return
	}
	x := atomic.AddUint64(&chaosCtr, 0x9E3779B97F4A7C15)
	x ^= x >> 30
	x *= 0xBF58476D1CE4E5B9
	x ^= x >> 27
	x *= 0x94D049BB133111EB
	x ^= x >> 31
	if int32(x%1000) >= p {
		return
	}
	switch (x >> 12) % 4 {
	case 0:
		runtime.Gosched()
	case 1:
		for t := time.Now(); time.Since(t) < time.Duration(1+(x>>16)%20)*time.Microsecond; {
		}
	default:
		time.Sleep(time.Duration(1+(x>>16)%200) * time.Microsecond)
	}
}

type thread struct {
	id      int
	resume  chan struct{}
	done    bool
	blocked interface{} // non-nil: waiting for this lock
	steps   int
	guard   func() bool // non-nil: runnable only while guard() holds (BlockOn)
	dying   bool        // the thread is unwinding after a panic raised by a shim (Crash): its deferred shim calls neither yield nor log
	waits   int         // number of BlockOn calls whose guard was false when called (the thread really had to wait)
}

// Sched is one controlled run.
type Sched struct {
	threads []*thread
	yield   chan struct{}
	cur     *thread
	W       *bufio.Writer
	abort   bool
	Layers  map[string]bool // nil = all layers yield
	crashed string          // non-empty: a logical thread panicked (the real process would be dead): the run ends
}

// CatchPanics: a panic inside a logical thread is recovered, recorded (Result.Panics) and ends the run instead of killing the process.
// OnIdle is consulted when nobody is runnable although threads are pending: it may change harness state (so that some guard becomes
// true) and return true to continue; false = the run ends as a deadlock. Both are set by the poolstep harness only.
var (
	CatchPanics bool
	OnIdle      func() bool
)

var panics []string

// Spawn creates a new logical thread during a run (the shim of a `go` statement); it starts running when the picker first chooses it.
func Spawn(body func()) int {
	s := active
	if s == nil || s.cur == nil {
		panic("vsched.Spawn outside a controlled run")
	}
	t := &thread{id: len(s.threads), resume: make(chan struct{})}
	s.threads = append(s.threads, t)
	go s.threadMain(t, body)
	return t.id
}

func (s *Sched) threadMain(t *thread, b func()) {
	<-t.resume
	// runs after every deferred call of the body, also when the thread is aborted (Goexit in Point) or panics
	defer func() {
		if CatchPanics {
			if r := recover(); r != nil {
				msg := fmt.Sprint(r)
				if !t.dying {
					fmt.Fprintf(s.W, "ch %d crash %s\n", t.id, sanitize(msg))
				}
				if s.crashed == "" {
					s.crashed = msg
				}
				panics = append(panics, fmt.Sprintf("thread %d: %s", t.id, msg))
			}
		}
		t.dying = false
		t.done = true
		s.yield <- struct{}{}
	}()
	if !s.abort {
		b()
	}
}

func sanitize(m string) string {
	b := []byte(m)
	for i, c := range b {
		if c == ' ' || c == '\n' || c == '\t' {
			b[i] = '_'
		}
	}
	if len(b) > 120 {
		b = b[:120]
	}
	return string(b)
}

// Crash is called by a shim that is about to raise a Go run-time panic of the modelled kind (send on closed channel, close of closed
// channel, negative WaitGroup counter) AFTER it has logged the panic line: in the real program the process dies here, so the deferred
// calls of the unwinding thread must not appear as further steps.
func Crash(msg string) {
	s := active
	if s == nil || s.cur == nil {
		panic(msg)
	}
	s.cur.dying = true
	if s.crashed == "" {
		s.crashed = msg
	}
	panic(msg)
}

// BlockOn parks the calling thread until it is granted a step at a moment when guard() holds (guard is evaluated by the scheduler
// between steps, when no logical thread runs). It is ONE scheduling point.
func BlockOn(guard func() bool) {
	s := active
	if s == nil || s.cur == nil {
		panic("vsched.BlockOn outside a controlled run")
	}
	t := s.cur
	if t.dying {
		return
	}
	if !guard() {
		t.waits++
	}
	t.guard = guard
	Point()
	t.guard = nil
}

// Waits reports how many times thread tid really had to wait in BlockOn so far.
func Waits(tid int) int { return active.threads[tid].waits }

// Steps reports the number of steps granted to thread tid so far.
func Steps(tid int) int { return active.threads[tid].steps }

// NThreads is the number of logical threads created so far in the current run.
func NThreads() int { return len(active.threads) }

// ThreadDone reports whether thread tid has finished.
func ThreadDone(tid int) bool { return active.threads[tid].done }

// Dying reports whether the running thread is unwinding after Crash.
func Dying() bool { s := active; return s != nil && s.cur != nil && s.cur.dying }

// Out gives the harness direct access to the trace writer of the current run.
func Out() *bufio.Writer { return active.W }

var active *Sched

// LayerOn reports whether operations of this layer are scheduling points in the current run.
func LayerOn(layer string) bool {
	s := active
	if s == nil || s.cur == nil {
		return false
	}
	if s.Layers == nil {
		return true
	}
	return s.Layers[layer]
}

// Point parks the calling logical thread until it is granted its next step.
func Point() {
	s := active
	if s == nil || s.cur == nil {
		return
	}
	t := s.cur
	if t.dying {
		return
	}
	s.yield <- struct{}{}
	<-t.resume
	if s.abort {
		t.dying = true // the deferred calls of the aborted body neither yield nor log; threadMain's deferred function yields last
		runtime.Goexit()
	}
}

// Block marks the current thread as waiting for lock m and parks it; returns when granted again.
func Block(m interface{}) {
	s := active
	if s == nil || s.cur == nil {
		panic("vsched.Block outside a controlled run")
	}
	if s.cur.dying {
		return
	}
	s.cur.blocked = m
	Point()
}

// Unblock makes every thread waiting for m runnable again.
func Unblock(m interface{}) {
	s := active
	if s == nil {
		return
	}
	for _, t := range s.threads {
		if t.blocked == m {
			t.blocked = nil
		}
	}
}

// Logf appends a line to the trace of the current run.
func Logf(format string, args ...interface{}) {
	if s := active; s != nil && s.cur != nil && !s.cur.dying {
		fmt.Fprintf(s.W, format, args...)
	}
}

// Tid is the id of the running logical thread.
func Tid() int { return active.cur.id }

// Active reports whether the caller runs inside a controlled run.
func Active() bool { return active != nil && active.cur != nil }

// Result of a run.
type Result struct {
	Steps     int
	PerThread []int
	Done      []bool
	Deadlock  bool     // somebody not done, nobody runnable, nobody frozen by the picker
	Budget    bool     // step budget exhausted
	Panics    []string // CatchPanics: recovered panics of logical threads
}

// Run executes bodies under pick. pick receives the runnable thread ids and the number of steps
// granted so far and returns one of the ids, or -1 to end the run (remaining threads are aborted:
// this is how a frozen thread is never scheduled again).
func Run(w *bufio.Writer, layers map[string]bool, bodies []func(), budget int, pick func(runnable []int, step int) int) Result {
	s := &Sched{yield: make(chan struct{}), W: w, Layers: layers}
	active = s
	defer func() { active = nil }()
	for i, b := range bodies {
		t := &thread{id: i, resume: make(chan struct{})}
		s.threads = append(s.threads, t)
		go s.threadMain(t, b)
	}
	panics = nil
	// bring every thread to its first Point (or completion) in id order; no shared access happens here
	for _, t := range s.threads {
		s.cur = t
		t.resume <- struct{}{}
		<-s.yield
		s.cur = nil
	}
	res := Result{PerThread: make([]int, len(bodies)), Done: make([]bool, len(bodies))}
	for {
		var runnable []int
		pending := false
		for _, t := range s.threads {
			if !t.done {
				pending = true
				if t.blocked == nil && (t.guard == nil || t.guard()) {
					runnable = append(runnable, t.id)
				}
			}
		}
		if !pending || s.crashed != "" {
			break
		}
		if len(runnable) == 0 {
			if OnIdle != nil && OnIdle() {
				continue
			}
			res.Deadlock = true
			break
		}
		if res.Steps >= budget {
			res.Budget = true
			break
		}
		id := pick(runnable, res.Steps)
		if id < 0 {
			break
		}
		t := s.threads[id]
		s.cur = t
		t.resume <- struct{}{}
		<-s.yield
		s.cur = nil
		res.Steps++
		t.steps++
	}
	res.PerThread = make([]int, len(s.threads))
	res.Done = make([]bool, len(s.threads))
	for i, t := range s.threads {
		res.PerThread[i] = t.steps
		res.Done[i] = t.done
	}
	// abort whatever is still parked
	s.abort = true
	for i := 0; i < len(s.threads); i++ {
		t := s.threads[i]
		if !t.done {
			s.cur = t
			t.resume <- struct{}{}
			<-s.yield
			s.cur = nil
		}
	}
	res.Panics = panics
	return res
}
