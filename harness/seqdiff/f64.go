package main

import (
	"fmt"
	"math"
)

// runF64 validates the exact binary64 model against the hardware arithmetic Go uses.
func runF64(count int) {
	ops := []string{"mul", "div", "add", "lt", "le", "toi", "ofi", "rt"}
	for i := 0; i < count; i++ {
		op := ops[rng.Intn(len(ops))]
		a, b := anyFloat(), anyFloat()
		if rng.Intn(4) == 0 { // near-equal operands / cancellations
			b = math.Nextafter(a, math.Inf(rng.Intn(3)-1))
			if rng.Intn(2) == 0 {
				b = -b
			}
		}
		switch op {
		case "mul":
			emit(fmt.Sprintf("f64 mul %s %s", fbits(a), fbits(b)), fbits(a*b), "ok")
		case "div":
			emit(fmt.Sprintf("f64 div %s %s", fbits(a), fbits(b)), fbits(a/b), "ok")
		case "add":
			emit(fmt.Sprintf("f64 add %s %s", fbits(a), fbits(b)), fbits(a+b), "ok")
		case "lt":
			r := "0"
			if a < b {
				r = "1"
			}
			emit(fmt.Sprintf("f64 lt %s %s", fbits(a), fbits(b)), r, "ok")
		case "le":
			r := "0"
			if a <= b {
				r = "1"
			}
			emit(fmt.Sprintf("f64 le %s %s", fbits(a), fbits(b)), r, "ok")
		case "toi":
			emit(fmt.Sprintf("f64 toi %s", fbits(a)), fmt.Sprint(toI64(a)), "ok")
		case "ofi":
			v := anyInt()
			emit(fmt.Sprintf("f64 ofi %d", v), fbits(float64(v)), "ok")
		case "rt":
			emit(fmt.Sprintf("f64 rt %s", fbits(a)), fbits(a)+" c", "ok")
		}
	}
}

//go:noinline
func toI64(f float64) int64 { return int64(f) }
