package main

import (
	"encoding/hex"
	"fmt"
	"math"
	"math/big"
	"reflect"
	"regexp"
	"strconv"
	"strings"

	"go.linecorp.com/garr/retry"
)

func describe(b retry.Backoff) string {
	v := reflect.ValueOf(b)
	if v.Kind() != reflect.Ptr || v.IsNil() {
		return "?nil"
	}
	e := v.Elem()
	switch e.Type().Name() {
	case "FixedBackoff":
		return fmt.Sprintf("F %d", e.FieldByName("delayMillis").Int())
	case "RandomBackoff":
		return fmt.Sprintf("R %d %d", e.FieldByName("minDelayMillis").Int(), e.FieldByName("maxDelayMillis").Int())
	case "ExponentialBackoff":
		return fmt.Sprintf("E %d %d %s", e.FieldByName("initialDelayMillis").Int(), e.FieldByName("maxDelayMillis").Int(),
			fbits(e.FieldByName("multiplier").Float()))
	}
	return "?" + e.Type().Name()
}

var intFields = []string{"", "0", "1", "7", "200", "10000", "+5", "-5", "-0", "+0", "007", "0000000000000000000000012",
	"9223372036854775807", "9223372036854775808", "-9223372036854775808", "-9223372036854775809", "+9223372036854775807",
	"99999999999999999999", "1_000", "0x10", "1e3", "1.0", " 1", "1 ", "+", "-", "++1", "+-1", "٣", "1\x00", "12a"}

var floatFields = []string{"", "2", "2.0", "1.5", "1", "1.0000000000000002", "0.5", "-2", "1e3", "1E3", "1e400", "1e-400", "NaN", "nan", "inf", "+Inf",
	"-inf", "Infinity", "0x1p1", "0x1.8p0", "1_0", ".5", "5.", "1e", "e1", "+2", " 2", "2 ", "2,0", "1.7976931348623159e308", "3.0000000000000000000000000000001",
	"1.00000000000000011102230246251565404236316680908203125", "1.00000000000000011102230246251565404236316680908203124", "٢", "2\x00"}

func genGrammarSpec() string {
	pi := func() string {
		if rng.Intn(3) == 0 {
			return strconv.FormatInt(anyInt(), 10)
		}
		return intFields[rng.Intn(len(intFields))]
	}
	switch rng.Intn(3) {
	case 0:
		return "fixed=" + pi()
	case 1:
		return "random=" + pi() + ":" + pi()
	default:
		f := floatFields[rng.Intn(len(floatFields))]
		if rng.Intn(4) == 0 {
			f = strconv.FormatFloat(anyFloat(), 'g', -1, 64)
		}
		return "exponential=" + pi() + ":" + pi() + ":" + f
	}
}

func mutate(s string) string {
	b := []byte(s)
	for k := 1 + rng.Intn(2); k > 0; k-- {
		switch rng.Intn(5) {
		case 0: // insert
			ins := []byte{':', '=', ' ', '0', '-', 0, 0xff, 'x', '\n', '\t', ','}
			p := rng.Intn(len(b) + 1)
			b = append(b[:p], append([]byte{ins[rng.Intn(len(ins))]}, b[p:]...)...)
		case 1: // delete
			if len(b) > 0 {
				p := rng.Intn(len(b))
				b = append(b[:p], b[p+1:]...)
			}
		case 2: // replace
			if len(b) > 0 {
				b[rng.Intn(len(b))] = byte(rng.Intn(256))
			}
		case 3: // case flip
			if len(b) > 0 {
				p := rng.Intn(len(b))
				b[p] ^= 0x20
			}
		case 4: // truncate
			if len(b) > 0 {
				b = b[:rng.Intn(len(b))]
			}
		}
	}
	return string(b)
}

func genSpec() (s string, class string) {
	switch r := rng.Intn(10); {
	case r < 5:
		return genGrammarSpec(), "grammar"
	case r < 8:
		return mutate(genGrammarSpec()), "mutated"
	case r < 9:
		keys := []string{"", "=", "fixed", "fixed=1=2", "Fixed=1", "fixed =1", " fixed=1", "random=1", "random=1:2:3", "exponential=1:2", "exponential=1:2:3:4",
			"exponential=::", "random=:", "fixed=", "exponential", "linear=1", "=fixed=1", "fixed==1", "random=:=", "exponential=:::"}
		return keys[rng.Intn(len(keys))], "fixedlist"
	default:
		n := rng.Intn(24)
		b := make([]byte, n)
		for i := range b {
			b[i] = byte(rng.Intn(256))
		}
		return string(b), "bytes"
	}
}

var reInt = regexp.MustCompile(`^[+-]?[0-9]+$`)

// independent recogniser for the documented grammar; ok=false means "must fail"
func recogniseInt(f string, dflt int64) (int64, bool) {
	if f == "" {
		return dflt, true
	}
	if !reInt.MatchString(f) {
		return 0, false
	}
	x, ok := new(big.Int).SetString(f, 10)
	if !ok || !x.IsInt64() {
		return 0, false
	}
	return x.Int64(), true
}

func recognise(s string) (want string) {
	i := strings.IndexByte(s, '=')
	if i < 0 {
		return "err"
	}
	key, vals := s[:i], s[i+1:]
	switch key {
	case "fixed":
		d, ok := recogniseInt(vals, 200)
		if !ok || d < 0 {
			return "err"
		}
		return fmt.Sprintf("F %d", d)
	case "random":
		fs := strings.Split(vals, ":")
		if len(fs) != 2 {
			return "err"
		}
		lo, ok1 := recogniseInt(fs[0], 0)
		hi, ok2 := recogniseInt(fs[1], 10000)
		if !ok1 || !ok2 || lo < 0 || lo > hi {
			return "err"
		}
		return fmt.Sprintf("R %d %d", lo, hi)
	case "exponential":
		fs := strings.Split(vals, ":")
		if len(fs) != 3 {
			return "err"
		}
		in, ok1 := recogniseInt(fs[0], 200)
		mx, ok2 := recogniseInt(fs[1], 10000)
		mu := 2.0
		if fs[2] != "" {
			var err error
			if mu, err = strconv.ParseFloat(fs[2], 64); err != nil {
				return "err"
			}
		}
		if !ok1 || !ok2 || !(mu == mu && mu > 1) || in < 0 || in > mx {
			return "err"
		}
		return fmt.Sprintf("E %d %d %s", in, mx, fbits(mu))
	}
	return "err"
}

func buildSpec(s string) (r retry.Backoff, res string) {
	defer func() {
		if p := recover(); p != nil {
			res = fmt.Sprintf("panic:%v", p)
		}
	}()
	bld := retry.NewBackoffBuilder()
	if rng.Intn(3) == 0 {
		// the specification is REPLACED on one builder: whatever was given first (well-formed or not) must leave no trace
		prior := []string{"fixed=100", "random=1:5", "exponential=1:100:2", "fixed", "garbage", ":", "=", "fixed=", "random=:", "exponential=::"}[rng.Intn(10)]
		bld.BaseBackoffSpec(prior)
		stats["spec replaced on one builder"]++
	}
	r, err := bld.BaseBackoffSpec(s).Build()
	if err != nil {
		return nil, "err"
	}
	return r, describe(r)
}

func sameDelays(a, b retry.Backoff) string {
	ws := genWords(12)
	for _, n := range []int{1, 2, 3, 4, 5, 11, 64, 1025} {
		d1, u1, _ := callNext(a, n, ws)
		d2, u2, _ := callNext(b, n, ws)
		if d1 != d2 || u1 != u2 {
			return fmt.Sprintf("attempt %d: parsed gives %d, directly constructed gives %d", n, d1, d2)
		}
	}
	return ""
}

func runSpec(count int) {
	classes := map[string]int{}
	for i := 0; i < count; i++ {
		s, class := genSpec()
		classes[class]++
		hx := "-"
		if len(s) > 0 {
			hx = hex.EncodeToString([]byte(s))
		}
		// result of strconv.ParseFloat on the third field of exponential=a:b:c (the model's parameter)
		pf := "none"
		if j := strings.IndexByte(s, '='); j >= 0 && s[:j] == "exponential" {
			if fs := strings.Split(s[j+1:], ":"); len(fs) == 3 && fs[2] != "" {
				if v, err := strconv.ParseFloat(fs[2], 64); err == nil {
					pf = fbits(v)
				}
			}
		}
		req := fmt.Sprintf("spec %s pf %s", hx, pf)
		obj, impl := buildSpec(s)
		mon := "ok"
		want := recognise(s)
		switch {
		case strings.HasPrefix(impl, "panic:"):
			mon = fmt.Sprintf("FAIL C18 Build panicked on spec %q: %s", s, impl)
		case impl != want:
			mon = fmt.Sprintf("FAIL C18 spec %q: built %q, documented grammar says %q", s, impl, want)
		case obj != nil:
			// behaves identically to the back-off built directly from the same numbers
			var direct retry.Backoff
			var err error
			f := strings.Fields(want)
			switch f[0] {
			case "F":
				d, _ := strconv.ParseInt(f[1], 10, 64)
				direct, err = retry.NewFixedBackoff(d)
			case "R":
				lo, _ := strconv.ParseInt(f[1], 10, 64)
				hi, _ := strconv.ParseInt(f[2], 10, 64)
				direct, err = retry.NewRandomBackoff(lo, hi)
			case "E":
				in, _ := strconv.ParseInt(f[1], 10, 64)
				mx, _ := strconv.ParseInt(f[2], 10, 64)
				bits, _ := strconv.ParseUint(f[3], 16, 64)
				direct, err = retry.NewExponentialBackoff(in, mx, math.Float64frombits(bits))
			}
			if err != nil {
				mon = fmt.Sprintf("FAIL C18 spec %q parsed but direct construction from the same numbers fails: %v", s, err)
			} else if msg := sameDelays(obj, direct); msg != "" {
				mon = fmt.Sprintf("FAIL C18 spec %q: %s", s, msg)
			} else if msg := layerOrder(s, direct); msg != "" {
				mon = fmt.Sprintf("FAIL C18 spec %q: %s", s, msg)
			}
		}
		emit(req, impl, mon)
	}
}

// layerOrder: limit/jitter layers are applied in the order they were added; Build twice gives the same.
// The base reaches the builder by one of its routes: the spec, the spec after BaseBackoff(nil) (a nil base is ignored, it must
// not panic or hide the spec), or BaseBackoff(object built directly from the same numbers).
func layerOrder(s string, direct retry.Backoff) string {
	bld := retry.NewBackoffBuilder()
	how := rng.Intn(4)
	switch how {
	case 2:
		bld.BaseBackoff(nil).BaseBackoffSpec(s)
	case 3:
		bld.BaseBackoff(direct)
	default:
		bld.BaseBackoffSpec(s)
	}
	stats[fmt.Sprint("spec builder base route ", how)]++
	// a second builder alive at the same time, configured in lock step with different layers: builders are independent objects
	var other *retry.BackoffBuilder
	if rng.Intn(2) == 0 {
		other = retry.NewBackoffBuilder().BaseBackoffSpec("fixed=1")
		stats["spec builder with a bystander builder"]++
	}
	var want retry.Backoff = direct
	var err error
	nl := rng.Intn(4)
	if rng.Intn(6) == 0 {
		nl = 4 + rng.Intn(6) // more layers than the builder's initial capacity
	}
	for i := 0; i < nl; i++ {
		switch rng.Intn(3) {
		case 0:
			k := 1 + rng.Intn(6)
			bld.WithLimit(k)
			want, err = retry.NewAttemptLimitingBackoff(want, k)
		case 1:
			r := rng.Float64()
			bld.WithJitter(r)
			want, err = retry.NewJitterAddingBackoff(want, -r, r)
		default:
			lo, hi := validRate(), validRate()
			if lo > hi {
				lo, hi = hi, lo
			}
			bld.WithJitterBound(lo, hi)
			want, err = retry.NewJitterAddingBackoff(want, lo, hi)
		}
		if err != nil {
			return "monitor: layer construction failed: " + err.Error()
		}
		if other != nil {
			if i%2 == 0 {
				other.WithLimit(1000 + i)
			} else {
				other.WithJitter(0.5)
			}
		}
	}
	if other != nil {
		other.WithLimit(2000) // one more than the builder under test has
	}
	for round := 0; round < 2; round++ {
		got, err := bld.Build()
		if err != nil {
			return fmt.Sprintf("Build with %d valid layers failed (base given by route %d: 0,1 = spec; 2 = BaseBackoff(nil) then spec; 3 = BaseBackoff(object built directly)): %v", nl, how, err)
		}
		if msg := sameDelays(got, want); msg != "" {
			return fmt.Sprintf("builder layers (%d, base route %d) differ from manual wrapping in order (build #%d): %s", nl, how, round+1, msg)
		}
	}
	return ""
}
