package main

import (
	"context"
	"errors"
	"fmt"
	"math"
	"math/big"
	"strings"
	"time"

	cbreaker "go.linecorp.com/garr/circuit-breaker"
)

// scripted ticker: hands out the script values in order and records how many were consumed
type scriptTicker struct {
	script []int64
	i      int
}

func (s *scriptTicker) Tick() int64 {
	v := int64(0)
	if s.i < len(s.script) {
		v = s.script[s.i]
	}
	s.i++
	return v
}

// recording listener. `mode` says whether its callbacks return an error ('-' never, 'e' always, 'm' every other call):
// an erroring listener must change neither the decisions nor what the OTHER listeners are told (C06: every transition and
// every rejection is reported to each listener exactly once).
type recListener struct {
	idx   int
	log   *[]string
	mode  byte
	calls int
	env   *brkEnv
}

var errListener = errors.New("listener failed (harness)")

// brkEnv: what the glue around the machine must preserve (checked by the Go monitor, tagged C06)
type brkEnv struct {
	cb    cbreaker.CircuitBreaker // breaker every callback must name (set once the constructor has returned)
	early []cbreaker.CircuitBreaker
	bad   string
}

func (e *brkEnv) fail(format string, a ...interface{}) {
	if e.bad == "" {
		e.bad = fmt.Sprintf(format, a...)
	}
}

func (l *recListener) ret(cb cbreaker.CircuitBreaker) error {
	if l.env != nil {
		if l.env.cb == nil {
			l.env.early = append(l.env.early, cb)
		} else if cb != l.env.cb {
			l.env.fail("listener %d was handed a different breaker than the one that was built", l.idx)
		}
	}
	l.calls++
	if l.mode == 'e' || (l.mode == 'm' && l.calls%2 == 1) {
		return errListener
	}
	return nil
}

func kindStr(s cbreaker.CircuitState) string {
	switch s {
	case cbreaker.CircuitStateClosed:
		return "C"
	case cbreaker.CircuitStateOpen:
		return "O"
	}
	return "H"
}

// rate accessors of an EventCount: part/total evaluated in float64, -1 for an empty count (eventCount.go)
func wantRate(part, total int64) float64 {
	if total == 0 {
		return -1
	}
	return float64(part) / float64(total)
}

func checkCount(c *cbreaker.EventCount) string {
	s, f := c.Success(), c.Failure()
	if c.Total() != s+f {
		return fmt.Sprintf("EventCount %d/%d: Total() = %d", s, f, c.Total())
	}
	if got, want := c.SuccessRate(), wantRate(s, s+f); fbits(got) != fbits(want) {
		return fmt.Sprintf("EventCount %d/%d: SuccessRate() = %v, want %v", s, f, got, want)
	}
	if got, want := c.FailureRate(), wantRate(f, s+f); fbits(got) != fbits(want) {
		return fmt.Sprintf("EventCount %d/%d: FailureRate() = %v, want %v", s, f, got, want)
	}
	return ""
}

func (l *recListener) OnStateChanged(cb cbreaker.CircuitBreaker, state cbreaker.CircuitState) error {
	*l.log = append(*l.log, fmt.Sprintf("S%d:%s", l.idx, kindStr(state)))
	return l.ret(cb)
}
func (l *recListener) OnEventCountUpdated(cb cbreaker.CircuitBreaker, c *cbreaker.EventCount) error {
	if c == nil {
		*l.log = append(*l.log, fmt.Sprintf("N%d:nil", l.idx))
		return l.ret(cb)
	}
	*l.log = append(*l.log, fmt.Sprintf("N%d:%d/%d", l.idx, c.Success(), c.Failure()))
	if l.env != nil {
		if msg := checkCount(c); msg != "" {
			l.env.fail("count delivered to listener %d: %s", l.idx, msg)
		}
	}
	return l.ret(cb)
}
func (l *recListener) OnRequestRejected(cb cbreaker.CircuitBreaker) error {
	*l.log = append(*l.log, fmt.Sprintf("R%d", l.idx))
	return l.ret(cb)
}
func (l *recListener) Stop() {}

// recording logger (SetDefaultLogger): the log text belongs to no property; enabling it must not change anything else
type recLogger struct{ info, warn, err int }

func (l *recLogger) Info(string)               { l.info++ }
func (l *recLogger) Warn(string, interface{})  { l.warn++ }
func (l *recLogger) Error(string, interface{}) { l.err++ }

type brkCfg struct {
	thr                           float64
	minReq                        int64
	trial, open, window, interval int64
	k                             int
	scale                         int64 // durations were multiplied by this (0/1: nanosecond-sized)
}

func genBrkCfg() brkCfg {
	thrs := []float64{0.5, 0.8, 1.0 / 3, 2.0 / 3, 1, math.SmallestNonzeroFloat64, 0.1, 0.25, 0.75, 0.999, math.Nextafter(0.5, 1), math.Nextafter(0.5, 0), 0.2, 0.6}
	ivs := []int64{1, 2, 5, 10, 100, 1000}
	c := brkCfg{thr: thrs[rng.Intn(len(thrs))], minReq: []int64{0, 1, 2, 3, 4, 5, 10, -1, 1}[rng.Intn(9)], k: rng.Intn(3)}
	c.interval = ivs[rng.Intn(len(ivs))]
	c.window = c.interval * int64(2+rng.Intn(5))
	if rng.Intn(3) == 0 {
		c.window = c.interval + 1 + int64(rng.Intn(int(3*c.interval)))
	}
	c.open = []int64{1, 5, 10, 100, 1000}[rng.Intn(5)]
	c.trial = []int64{1, 3, 10, 100}[rng.Intn(4)]
	if rng.Intn(4) == 0 {
		// thresholds just below / above an attainable ratio f/t of small counts (7 decimals, one ulp): a rate compared at a coarser
		// resolution than float64 decides differently exactly there
		t := int64(1 + rng.Intn(12))
		f := int64(rng.Intn(int(t) + 1))
		r := float64(f) / float64(t)
		c.thr = []float64{math.Floor(r*1e7) / 1e7, math.Nextafter(r, 0), math.Nextafter(r, 2), math.Ceil(r*1e7) / 1e7, math.Floor(r*1e4) / 1e4}[rng.Intn(5)]
		if !(c.thr > 0 && c.thr <= 1) {
			c.thr = 0.5
		}
		stats["cfg.fine-threshold"]++
	}
	if rng.Intn(3) == 0 {
		// realistic magnitudes: the same configuration in microseconds, milliseconds, seconds, minutes, hours (values are nanoseconds)
		scale := []int64{1000, 1000000, 1000000000, 60000000000, 3600000000000}[rng.Intn(5)]
		c.interval *= scale
		c.window *= scale
		c.open *= scale
		c.trial *= scale
		c.scale = scale
		stats["cfg.scaled-durations"]++
	}
	if rng.Intn(8) == 0 {
		// "all window sizes": windows up to the largest Duration (nothing ever expires); with ticks far from the int64 limits no
		// sum or difference of the counter wraps (t - window >= -MaxInt64)
		c.window = []int64{1 << 62, math.MaxInt64, math.MaxInt64 - int64(rng.Intn(1000)), 1<<61 + 12345}[rng.Intn(4)]
		stats["cfg.huge-window"]++
	}
	return c
}

// unscale: the wrap streams (known finding F7, keyed to ticks within ~10^5 of the int64 limits) keep nanosecond-sized configurations
func (c *brkCfg) unscale() {
	if c.scale > 1 {
		c.interval /= c.scale
		c.window /= c.scale
		c.open /= c.scale
		c.trial /= c.scale
		c.scale = 1
	}
}

// hugeWindow: the tick scripts of such configurations stay near 10^12 (far from zero and from the limits)
func (c brkCfg) hugeWindow() bool { return c.window >= 1<<61 }

// tick script: mostly advancing, sometimes standing still, stepping back or jumping several windows
func genTicks(n int, c brkCfg, start int64) []int64 {
	ts := make([]int64, n)
	t := start
	mode := rng.Intn(4)
	huge := c.hugeWindow()
	if huge {
		c.window = 1000 * c.interval // jump sizes only; the configuration keeps its window
		if t < 1000000000000 {
			t = 1000000000000 // ticks of such configurations stay non-negative: t - window never wraps there
		}
	}
	for i := range ts {
		var d int64
		switch r := rng.Intn(20); {
		case r < 4:
			d = 0
		case r < 9:
			d = 1
		case r < 12:
			d = c.interval / 2
		case r < 15:
			d = c.interval
		case r < 16:
			d = c.window
		case r < 17:
			d = 3*c.window + 1
		case r < 18:
			d = c.open
		case r < 19:
			d = -1 - int64(rng.Intn(int(c.interval)+1))
		default:
			d = -c.window
		}
		if mode == 0 && d < 0 {
			d = 1
		}
		if mode == 1 {
			d = []int64{0, 1, c.interval}[rng.Intn(3)]
		}
		if (d > 0 && t > math.MaxInt64-d) || (d < 0 && t < math.MinInt64-d) {
			d = 0 // the ticker itself never wraps
		}
		if huge && (t+d < 0 || t+d > math.MaxInt64/2) {
			d = 0
		}
		t += d
		ts[i] = t
	}
	return ts
}

func i64s(v []int64) string {
	if len(v) == 0 {
		return "-"
	}
	s := make([]string, len(v))
	for i, x := range v {
		s[i] = fmt.Sprint(x)
	}
	return strings.Join(s, ",")
}

// exact (non-wrapping) arithmetic of the documented machine
func bsum(a, b int64) *big.Int  { return new(big.Int).Add(big.NewInt(a), big.NewInt(b)) }
func bdiff(a, b int64) *big.Int { return new(big.Int).Sub(big.NewInt(a), big.NewInt(b)) }
func ltSum(t, a, b int64) bool  { return big.NewInt(t).Cmp(bsum(a, b)) < 0 }   // t < a+b
func geDiff(x, a, b int64) bool { return big.NewInt(x).Cmp(bdiff(a, b)) >= 0 } // x >= a-b

// ---- the documented machine over an event log (reference, independent formulation) ------------------------
type docEvent struct {
	stamp int64
	succ  bool
}
type docMachine struct {
	c        brkCfg
	kind     string // C O H
	deadline *big.Int
	events   []docEvent
	curStart int64
	log      []string
	tk       *scriptTicker
}

func (d *docMachine) notifyState(k string) {
	for i := 0; i < d.c.k; i++ {
		d.log = append(d.log, fmt.Sprintf("S%d:%s", i, k), fmt.Sprintf("N%d:0/0", i))
	}
}
func (d *docMachine) closeFresh() {
	d.kind = "C"
	d.events = nil
	d.curStart = d.tk.Tick()
	d.tk.Tick()
}
func (d *docMachine) report(succ bool) {
	switch d.kind {
	case "C":
		t := d.tk.Tick()
		switch {
		case t < d.curStart:
			d.events = append(d.events, docEvent{t, succ})
		case ltSum(t, d.curStart, d.c.interval):
			d.events = append(d.events, docEvent{d.curStart, succ})
		default:
			// the interval is complete: count what the sliding window holds (this report opens the next interval)
			var s, f int64
			kept := d.events[:0:0]
			for _, e := range d.events {
				if geDiff(e.stamp, t, d.c.window) {
					kept = append(kept, e)
					if e.succ {
						s++
					} else {
						f++
					}
				}
			}
			d.events = append(kept, docEvent{t, succ})
			d.curStart = t
			total := s + f
			if !succ && total > 0 && total >= d.c.minReq && float64(f)/float64(total) > d.c.thr {
				d.kind = "O"
				d.deadline = bsum(d.tk.Tick(), d.c.open)
				d.notifyState("O")
			} else {
				for i := 0; i < d.c.k; i++ {
					d.log = append(d.log, fmt.Sprintf("N%d:%d/%d", i, s, f))
				}
			}
		}
	case "H":
		if succ {
			d.closeFresh()
			d.notifyState("C")
		} else {
			d.kind = "O"
			d.deadline = bsum(d.tk.Tick(), d.c.open)
			d.notifyState("O")
		}
	}
}
func (d *docMachine) canRequest() bool {
	if d.kind == "C" {
		return true
	}
	if d.deadline.Cmp(big.NewInt(d.tk.Tick())) <= 0 {
		d.kind = "H"
		d.deadline = bsum(d.tk.Tick(), d.c.trial)
		d.notifyState("H")
		return true
	}
	for i := 0; i < d.c.k; i++ {
		d.log = append(d.log, fmt.Sprintf("R%d", i))
	}
	return false
}

// glue around the machine that a case exercises (part of the request line, token `env`, ignored by the model):
// per-listener error mode, a default logger, a breaker name
type brkGlue struct {
	lmodes string // one of - e m per listener
	logOn  bool
	named  bool
}

func (g brkGlue) String() string {
	lm := g.lmodes
	if lm == "" {
		lm = "0"
	}
	b := func(v bool) int {
		if v {
			return 1
		}
		return 0
	}
	return fmt.Sprintf("l=%s,log=%d,name=%d", lm, b(g.logOn), b(g.named))
}

func genGlue(k int) brkGlue {
	g := brkGlue{logOn: rng.Intn(3) == 0, named: rng.Intn(3) == 0}
	lm := make([]byte, k)
	plain := rng.Intn(2) == 0
	for i := range lm {
		lm[i] = '-'
		if !plain {
			lm[i] = "-em"[rng.Intn(3)]
		}
	}
	g.lmodes = string(lm)
	return g
}

// Op alphabet of a breaker case (request token `ops`):
//
//	c CanRequest()            s OnSuccess()            f OnFailure()
//	x y z  Execute(ctx, fn) with fn returning (v,nil) / (nil,e) / (v,e): asked from the model as a CanRequest; the
//	       implementation side answers T iff the delegate ran (and its results came back unchanged), F iff it did not run and
//	       the error is ErrFailFast
//	n      Execute(ctx, nil): returns (nil, nil) without consulting the breaker (no model step, no reading, no callback)
func genBrkOps(nops int) []byte {
	ops := make([]byte, nops)
	pf := []int{20, 50, 80}[rng.Intn(3)]
	execShare := []int{0, 40, 100}[rng.Intn(3)] // how many of the admission questions go through Execute
	for i := range ops {
		switch r := rng.Intn(100); {
		case r < 25:
			ops[i] = 'c'
			if rng.Intn(100) < execShare {
				ops[i] = "xyz"[rng.Intn(3)]
			}
		case r < 25+(75*pf)/100:
			ops[i] = 'f'
		default:
			ops[i] = 's'
		}
		if execShare > 0 && rng.Intn(25) == 0 {
			ops[i] = 'n'
		}
	}
	return ops
}

func runBreaker(count int, args []string) {
	defer cbreaker.SetDefaultLogger(nil)
	for n := 0; n < count; n++ {
		if len(args) == 0 && rng.Intn(16) == 0 {
			eventCountCase()
			continue
		}
		c := genBrkCfg()
		nops := 1 + rng.Intn(60)
		if rng.Intn(4) == 0 {
			nops = 1 + rng.Intn(8)
		}
		ops := genBrkOps(nops)
		g := genGlue(c.k)
		start := []int64{0, 1000, -500, 1 << 40}[rng.Intn(4)]
		if len(args) > 0 && args[0] == "wrap" {
			// known finding F7: ticker values within a few windows of the int64 limits
			if c.hugeWindow() {
				c.window = 3 * c.interval // the wrap streams keep ordinary window sizes
			}
			c.unscale()
			start = []int64{math.MaxInt64 - 3*c.window - int64(rng.Intn(50)), math.MaxInt64 - c.open - int64(rng.Intn(20)), math.MinInt64 + int64(rng.Intn(int(c.window))+1)}[rng.Intn(3)]
		}
		ticks := genTicks(2+3*nops, c, start)
		req := fmt.Sprintf("brk %s %d %d %d %d %d %d ops %s ticks %s env %s", fbits(c.thr), c.minReq, c.trial, c.open, c.window, c.interval, c.k, string(ops), i64s(ticks), g)
		impl, mon := execBreaker(c, g, ops, ticks)
		if g.logOn {
			stats["brk cases with a default logger"]++
		}
		if g.named {
			stats["brk cases with a breaker name"]++
		}
		if strings.ContainsAny(g.lmodes, "em") {
			stats["brk cases with a listener returning errors"]++
		}
		emit(req, impl, mon)
	}
}

// EventCount accessors (eventCount.go) mapped onto requests the F64 model already answers: the rate of a non-empty count
// is `f64 div float64(part) float64(total)` (operands converted by the harness), the rate of an empty count is the number -1.
func eventCountCase() {
	small := []int64{0, 0, 1, 2, 3, 7, 10, 100, 1 << 20, 1<<53 - 1, 1 << 53, 1<<53 + 1, 1 << 61}
	s, f := small[rng.Intn(len(small))], small[rng.Intn(len(small))]
	if rng.Intn(3) == 0 {
		s, f = int64(rng.Intn(1000)), int64(rng.Intn(1000))
	}
	e := cbreaker.NewEventCount(s, f)
	if rng.Intn(8) == 0 {
		e, s, f = cbreaker.EventCountZero, 0, 0
	}
	stats["brk EventCount accessor cases"]++
	part, got, what := f, e.FailureRate(), "FailureRate"
	if rng.Intn(2) == 0 {
		part, got, what = s, e.SuccessRate(), "SuccessRate"
	}
	total := s + f
	req := fmt.Sprintf("f64 div %s %s", fbits(float64(part)), fbits(float64(total)))
	if total == 0 {
		req = "f64 ofi -1"
	}
	mon := "ok"
	switch {
	case e.Success() != s || e.Failure() != f || e.Total() != total:
		mon = fmt.Sprintf("FAIL C06 NewEventCount(%d,%d): Success/Failure/Total = %d/%d/%d", s, f, e.Success(), e.Failure(), e.Total())
	case total == 0 && got != -1:
		mon = fmt.Sprintf("FAIL C06 %s() of an empty count = %v, want -1", what, got)
	case total != 0 && total < 1<<53:
		// exactly representable operands: the quotient is the correctly rounded exact ratio
		want, _ := new(big.Rat).SetFrac64(part, total).Float64()
		if got != want {
			mon = fmt.Sprintf("FAIL C06 %s() of %d/%d = %v, the exact ratio rounds to %v", what, s, f, got, want)
		}
	case total != 0 && !(got >= 0 && got <= 1):
		mon = fmt.Sprintf("FAIL C06 %s() of %d/%d = %v outside [0,1]", what, s, f, got)
	}
	emit(req, fbits(got), mon)
}

type ctxKey struct{}

var errDelegate = errors.New("delegate failed (harness)")

// one admission question through Execute; returns T / F / ?<what went wrong>
func viaExecute(cb cbreaker.CircuitBreaker, op byte) string {
	ctx := context.WithValue(context.Background(), ctxKey{}, op)
	val := &struct{ op byte }{op}
	var wantR interface{} = val
	var wantE error
	switch op {
	case 'y':
		wantR, wantE = nil, errDelegate
	case 'z':
		wantE = errDelegate
	}
	ran, sameCtx := 0, true
	r, err := cb.Execute(ctx, func(c context.Context) (interface{}, error) {
		ran++
		sameCtx = c == ctx
		return wantR, wantE
	})
	switch {
	case ran == 1 && sameCtx && r == wantR && err == wantE:
		return "T"
	case ran == 0 && r == nil && err == cbreaker.ErrFailFast:
		return "F"
	case ran > 1:
		return fmt.Sprintf("?delegate-ran-%d-times", ran)
	case ran == 1 && !sameCtx:
		return "?delegate-got-another-context"
	case ran == 1:
		return fmt.Sprintf("?delegate-ran-but-Execute-returned(%v,%v)-not-its-results", r, err)
	}
	return strings.ReplaceAll(fmt.Sprintf("?delegate-not-run-but-Execute-returned(%v,%v)-not-ErrFailFast", r, err), " ", "_")
}

func execBreaker(c brkCfg, g brkGlue, ops []byte, ticks []int64) (impl, mon string) {
	tk := &scriptTicker{script: ticks}
	var log []string
	env := &brkEnv{}
	var lg *recLogger
	if g.logOn {
		lg = &recLogger{}
		cbreaker.SetDefaultLogger(lg)
	} else {
		cbreaker.SetDefaultLogger(nil)
	}
	b := cbreaker.NewCircuitBreakerBuilder().SetTicker(tk).SetFailureRateThreshold(c.thr).SetMinimumRequestThreshold(c.minReq).
		SetTrialRequestInterval(time.Duration(c.trial)).SetCircuitOpenWindow(time.Duration(c.open)).
		SetCounterSlidingWindow(time.Duration(c.window)).SetCounterUpdateInterval(time.Duration(c.interval))
	var name *cbreaker.Name
	if g.named {
		name = &cbreaker.Name{Namespace: "ns", Subsystem: "sub", Name: fmt.Sprint("b", c.k)}
		b.Name(name)
	}
	for i := 0; i < c.k; i++ {
		b.AddListener(&recListener{idx: i, log: &log, mode: g.lmodes[i], env: env})
	}
	cb, err := b.Build()
	if err != nil {
		return "err", "FAIL C20 valid breaker configuration rejected: " + err.Error()
	}
	env.cb = cb
	for _, e := range env.early {
		if e != cb {
			env.fail("a constructor callback was handed a different breaker than the one Build returned")
		}
	}
	if cb.Name() != name {
		env.fail("Name() = %v, the builder was given %v", cb.Name(), name)
	}
	// reference machine
	dtk := &scriptTicker{script: ticks}
	doc := &docMachine{c: c, tk: dtk}
	doc.closeFresh()
	doc.notifyState("C")
	var outs []string
	initCbs := strings.Join(log, ",")
	mon = "ok"
	if initCbs != strings.Join(doc.log, ",") {
		mon = fmt.Sprintf("FAIL C06 constructor callbacks %q, documented machine %q", initCbs, strings.Join(doc.log, ","))
	}
	for i, op := range ops {
		log = log[:0]
		doc.log = doc.log[:0]
		r := "-"
		dr := "-"
		stats["brk op "+string(op)+" in state "+doc.kind]++
		switch op {
		case 'c', 'x', 'y', 'z':
			if op != 'c' {
				r = viaExecute(cb, op)
			} else if cb.CanRequest() {
				r = "T"
			} else {
				r = "F"
			}
			if doc.canRequest() {
				dr = "T"
			} else {
				dr = "F"
			}
		case 'n':
			before := tk.i
			if rr, e := cb.Execute(context.Background(), nil); rr != nil || e != nil {
				r = strings.ReplaceAll(fmt.Sprintf("?Execute(nil)-returned(%v,%v)", rr, e), " ", "_")
			} else if tk.i != before {
				r = "?Execute(nil)-read-the-ticker"
			}
		case 's':
			cb.OnSuccess()
			doc.report(true)
		case 'f':
			cb.OnFailure()
			doc.report(false)
		}
		o := r + "[" + strings.Join(log, ",") + "]"
		do := dr + "[" + strings.Join(doc.log, ",") + "]"
		outs = append(outs, o)
		if mon == "ok" && o != do {
			mon = fmt.Sprintf("FAIL C06 call #%d (%c): implementation %s, documented machine %s (state %s)", i+1, op, o, do, doc.kind)
		}
	}
	if mon == "ok" && tk.i != dtk.i {
		mon = fmt.Sprintf("FAIL C06 implementation consumed %d ticker readings, documented machine %d", tk.i, dtk.i)
	}
	if mon == "ok" && cb.Name() != name {
		env.fail("Name() changed to %v", cb.Name())
	}
	if mon == "ok" && env.bad != "" {
		mon = "FAIL C06 " + env.bad
	}
	return fmt.Sprintf("%d [%s] %s", tk.i, initCbs, strings.Join(outs, ";")), mon
}

// ---- exported SlidingWindowCounter (C10, sequential layer) ------------------------------------------------
func runWindow(count int, args []string) {
	for n := 0; n < count; n++ {
		c := genBrkCfg()
		if rng.Intn(5) == 0 { // the bare constructor accepts window <= interval
			c.window = c.interval - int64(rng.Intn(int(c.interval)+1))
		}
		nops := 1 + rng.Intn(60)
		ops := make([]byte, nops)
		for i := range ops {
			ops[i] = "ssffc"[rng.Intn(5)]
		}
		wstart := []int64{0, 1000, -500}[rng.Intn(3)]
		if len(args) > 0 && args[0] == "wrap" {
			if c.hugeWindow() {
				c.window = 3 * c.interval // the wrap stream keeps ordinary window sizes
			}
			c.unscale()
			wstart = []int64{math.MaxInt64 - 3*c.window - int64(rng.Intn(50)), math.MinInt64 + int64(rng.Intn(int(c.window)+1)+1)}[rng.Intn(2)]
		}
		ticks := genTicks(1+nops, c, wstart)
		if !(len(args) > 0 && args[0] == "wrap") && !c.hugeWindow() && c.scale <= 1 && rng.Intn(600) == 0 {
			// scale: more than a thousand buckets expire at one roll (every report at a reading below the current bucket's timestamp gets
			// an instant bucket of its own); then further rolls. Budgets or batch sizes hidden in the trim loop are crossed here.
			nb := []int{1030, 1100, 2100}[rng.Intn(3)]
			nops = nb + 6
			ops = make([]byte, nops)
			ticks = make([]int64, 1+nops)
			t0 := int64(1000000)
			ticks[0] = t0
			for i := 0; i < nb; i++ {
				ops[i] = "sf"[rng.Intn(2)]
				ticks[1+i] = t0 - 1 - int64(rng.Intn(int(c.interval)+50))
			}
			far := t0 + 3*c.window + 3*c.interval + 1
			for i := nb; i < nops; i++ {
				ops[i] = "sfsfsf"[i-nb]
				far += c.interval
				ticks[1+i] = far
			}
			stats["window.mass-expiry"]++
		}
		req := fmt.Sprintf("win %d %d ops %s ticks %s", c.window, c.interval, string(ops), i64s(ticks))
		tk := &scriptTicker{script: ticks}
		w, err := cbreaker.NewSlidingWindowCounter(tk, time.Duration(c.window), time.Duration(c.interval))
		if err != nil {
			emit(req, "err", "FAIL C10 constructor failed")
			continue
		}
		// reference tally: events with the stamp of the bucket they were recorded in
		var events []docEvent
		curStart := ticks[0]
		j := 1
		var outs []string
		mon := "ok"
		var lastS, lastF int64
		for i, op := range ops {
			if op == 'c' {
				e := w.Count()
				outs = append(outs, fmt.Sprintf("%d/%d", e.Success(), e.Failure()))
				if mon == "ok" && (e.Success() != lastS || e.Failure() != lastF) {
					mon = fmt.Sprintf("FAIL C10 Count() = %d/%d but the last roll reported %d/%d", e.Success(), e.Failure(), lastS, lastF)
				}
				continue
			}
			var e *cbreaker.EventCount
			if op == 's' {
				e = w.OnSuccess()
			} else {
				e = w.OnFailure()
			}
			t := ticks[j]
			j++
			switch {
			case t < curStart:
				events = append(events, docEvent{t, op == 's'})
				if e != nil && mon == "ok" {
					mon = fmt.Sprintf("FAIL C10 op #%d: a report while the ticker stepped back returned a count", i+1)
				}
			case ltSum(t, curStart, c.interval):
				events = append(events, docEvent{curStart, op == 's'})
				if e != nil && mon == "ok" {
					mon = fmt.Sprintf("FAIL C10 op #%d: a report inside the update interval returned a count", i+1)
				}
			default:
				var s, f int64
				kept := events[:0:0]
				for _, ev := range events {
					if geDiff(ev.stamp, t, c.window) {
						kept = append(kept, ev)
						if ev.succ {
							s++
						} else {
							f++
						}
					}
				}
				events = append(kept, docEvent{t, op == 's'})
				curStart = t
				if mon == "ok" {
					if e == nil {
						mon = fmt.Sprintf("FAIL C10 op #%d completes an update interval but returned no count", i+1)
					} else if e.Success() != s || e.Failure() != f {
						mon = fmt.Sprintf("FAIL C10 op #%d: roll at tick %d reported %d/%d, the reports recorded in intervals within the window are %d/%d", i+1, t, e.Success(), e.Failure(), s, f)
					}
				}
				lastS, lastF = s, f
			}
			if e == nil {
				outs = append(outs, "-")
			} else {
				outs = append(outs, fmt.Sprintf("%d/%d", e.Success(), e.Failure()))
			}
		}
		emit(req, fmt.Sprintf("%d %s", tk.i, strings.Join(outs, ";")), mon)
	}
}

func init() {
	extraModes["breaker"] = runBreaker
	extraModes["window"] = runWindow
}
