// Command seqdiff: sequential differential drivers. Every case prints
//
//	REQ <request line for garr_model>
//	IMPL <what the real implementation answered, canonical>
//	MON ok | MON FAIL <reason>       (property monitor, independent of the Lean model)
//
// The orchestrator pipes the REQ lines to the compiled Lean model and compares with IMPL.
package main

import (
	"bufio"
	"fmt"
	"math"
	"math/rand"
	"os"
	"sort"
	"strconv"
)

var out *bufio.Writer
var rng *rand.Rand

const canonNaN = 0x7FF8000000000001

func fbits(f float64) string {
	if f != f {
		return strconv.FormatUint(canonNaN, 16)
	}
	return strconv.FormatUint(math.Float64bits(f), 16)
}

func pick64(vals ...int64) int64 { return vals[rng.Intn(len(vals))] }

var specialFloats = []float64{
	0, math.Copysign(0, -1), 1, -1, 0.5, -0.5, 2, 1.5, 10, 0.1, 0.2, -0.2, 0.8, 1e-300, 1e300, 1e308,
	math.Inf(1), math.Inf(-1), math.NaN(), math.SmallestNonzeroFloat64, -math.SmallestNonzeroFloat64,
	math.MaxFloat64, -math.MaxFloat64, math.Nextafter(1, 2), math.Nextafter(1, 0), math.Nextafter(-1, 0), math.Nextafter(-1, -2),
	math.Nextafter(0, 1), math.Nextafter(0, -1), 1 << 52, 1 << 53, (1 << 53) + 2, 1 << 62, 1 << 63, -(1 << 63), 1 << 64,
	9223372036854774784, 9223372036854775808, 4.9e-324, 2.2250738585072014e-308, 2.225073858507201e-308, 1.0 / 3, 2.0 / 3,
}

func randFloatBits() float64 {
	switch rng.Intn(4) {
	case 0:
		return math.Float64frombits(rng.Uint64())
	case 1: // moderate exponent
		return math.Float64frombits((rng.Uint64() & 0x800FFFFFFFFFFFFF) | (uint64(1023-64+rng.Intn(128)) << 52))
	case 2: // few mantissa bits: ties
		m := rng.Uint64() & 0x000FFFFFFFFFFFFF
		m &^= (1 << uint(rng.Intn(52))) - 1
		return math.Float64frombits((rng.Uint64() & 0x8000000000000000) | (uint64(rng.Intn(2047)) << 52) | m)
	default:
		return specialFloats[rng.Intn(len(specialFloats))]
	}
}

func anyFloat() float64 {
	if rng.Intn(2) == 0 {
		return specialFloats[rng.Intn(len(specialFloats))]
	}
	return randFloatBits()
}

var edgeInts = []int64{0, 1, 2, 3, 7, 100, 200, 1000, 10000, 1<<31 - 1, 1 << 31, 1<<31 + 1, 1 << 32, 1<<53 - 1, 1 << 53, 1<<53 + 1,
	1<<53 + 3, 1 << 62, 1<<62 + 1, 1<<63 - 1, 1<<63 - 2, 1<<63 - 1025, -1, -2, -1 << 63, -1<<63 + 1, 6148914691236517205}

func anyInt() int64 {
	switch rng.Intn(4) {
	case 0:
		return int64(rng.Uint64())
	case 1:
		return int64(rng.Intn(100000))
	case 2:
		return int64(rng.Uint64() >> uint(rng.Intn(64)))
	default:
		return edgeInts[rng.Intn(len(edgeInts))]
	}
}

func nonNegInt() int64 {
	v := anyInt()
	if v < 0 {
		if v == math.MinInt64 {
			return math.MaxInt64
		}
		return -v
	}
	return v
}

// generator statistics (SEQDIFF_STATS=1 prints them to stderr at exit; not part of the protocol)
var stats = map[string]int{}

func printStats() {
	if os.Getenv("SEQDIFF_STATS") == "" {
		return
	}
	keys := make([]string, 0, len(stats))
	for k := range stats {
		keys = append(keys, k)
	}
	sort.Strings(keys)
	for _, k := range keys {
		fmt.Fprintf(os.Stderr, "STAT %s %d\n", k, stats[k])
	}
}

func emit(req, impl, mon string) {
	fmt.Fprintf(out, "REQ %s\nIMPL %s\nMON %s\n", req, impl, mon)
}

func main() {
	if len(os.Args) < 4 {
		fmt.Fprintln(os.Stderr, "usage: seqdiff <mode> <seed> <count> [args]")
		os.Exit(2)
	}
	mode := os.Args[1]
	seed, _ := strconv.ParseInt(os.Args[2], 10, 64)
	count, _ := strconv.Atoi(os.Args[3])
	rng = rand.New(rand.NewSource(seed))
	out = bufio.NewWriterSize(os.Stdout, 1<<20)
	defer out.Flush()
	defer printStats()
	switch mode {
	case "f64":
		runF64(count)
	case "retry":
		runRetry(count)
	case "spec":
		runSpec(count)
	default:
		if f, ok := extraModes[mode]; ok {
			f(count, os.Args[4:])
			return
		}
		fmt.Fprintln(os.Stderr, "unknown mode", mode)
		os.Exit(2)
	}
}

var extraModes = map[string]func(count int, args []string){}
