package main

import (
	"errors"
	"fmt"
	"math"
	"math/big"
	"strings"

	"github.com/valyala/fastrand"
	"go.linecorp.com/garr/retry"
)

// bspec describes one back-off layer; inner == nil for a base.
type bspec struct {
	kind      byte // F R E J L
	d, lo, hi int64
	init, max int64
	mult      float64
	jlo, jhi  float64
	k         int
	inner     *bspec
}

func (b *bspec) expr() string {
	switch b.kind {
	case 'F':
		return fmt.Sprintf("F %d", b.d)
	case 'R':
		return fmt.Sprintf("R %d %d", b.lo, b.hi)
	case 'E':
		return fmt.Sprintf("E %d %d %s", b.init, b.max, fbits(b.mult))
	case 'J':
		return fmt.Sprintf("J %s %s %s", fbits(b.jlo), fbits(b.jhi), b.inner.expr())
	case 'L':
		return fmt.Sprintf("L %d %s", b.k, b.inner.expr())
	}
	panic("kind")
}

// construct through the real constructors; nil on error. A wrapper's constructor is called even when the layer below
// could not be built: it is then handed a nil delegate and must fail (model: mkLimit none / mkJitter none).
func (b *bspec) construct() retry.Backoff {
	switch b.kind {
	case 'F':
		if r, err := retry.NewFixedBackoff(b.d); err == nil {
			return r
		}
	case 'R':
		if r, err := retry.NewRandomBackoff(b.lo, b.hi); err == nil {
			return r
		}
	case 'E':
		if r, err := retry.NewExponentialBackoff(b.init, b.max, b.mult); err == nil {
			return r
		}
	case 'J':
		if r, err := retry.NewJitterAddingBackoff(b.inner.construct(), b.jlo, b.jhi); err == nil {
			return r
		}
	case 'L':
		if r, err := retry.NewAttemptLimitingBackoff(b.inner.construct(), b.k); err == nil {
			return r
		}
	}
	return nil
}

// constructVia: route 'd' nests the constructors directly; route 'b' goes through the builder: BaseBackoff(base object,
// or nil if the base is not constructible) followed by WithLimit / WithJitterBound (WithJitter for a symmetric band) in
// the order of the layers, then Build. Both routes are asked from the model as the same expression (Retry.build = nesting).
func (b *bspec) constructVia(route byte) retry.Backoff {
	if route != 'b' {
		return b.construct()
	}
	var layers []*bspec
	x := b
	for ; x.inner != nil; x = x.inner {
		layers = append(layers, x)
	}
	bld := retry.NewBackoffBuilder().BaseBackoff(x.construct())
	for i := len(layers) - 1; i >= 0; i-- {
		switch l := layers[i]; {
		case l.kind == 'L':
			bld.WithLimit(l.k)
		case fbits(l.jlo) == fbits(-l.jhi):
			bld.WithJitter(l.jhi)
		default:
			bld.WithJitterBound(l.jlo, l.jhi)
		}
	}
	r, err := bld.Build()
	if err != nil {
		return nil
	}
	if r2, err2 := bld.Build(); err2 != nil || (len(layers) == 0 && r2 != r) {
		return nil // building twice from the same builder must give the same answer
	}
	return r
}

func genRoute() byte { return "ddb"[rng.Intn(3)] }

// documented domain (explicit about NaN)
func (b *bspec) inDomain() bool {
	num := func(f float64) bool { return f == f }
	switch b.kind {
	case 'F':
		return b.d >= 0
	case 'R':
		return b.lo >= 0 && b.lo <= b.hi
	case 'E':
		return num(b.mult) && b.mult > 1 && b.init >= 0 && b.init <= b.max
	case 'J':
		return b.inner.inDomain() && num(b.jlo) && num(b.jhi) && -1 <= b.jlo && b.jlo <= 1 && -1 <= b.jhi && b.jhi <= 1 && b.jlo <= b.jhi
	case 'L':
		return b.inner.inDomain() && b.k > 0
	}
	return false
}

func (b *bspec) base() *bspec {
	for b.inner != nil {
		b = b.inner
	}
	return b
}

var wordEdges = []uint32{0, 1, 2, 0xFFFFFFFF, 0x7FFFFFFF, 0x80000000, 0xFFFFFFFE}

func genWords(n int) []uint32 {
	ws := make([]uint32, n)
	for i := range ws {
		if rng.Intn(3) == 0 {
			ws[i] = wordEdges[rng.Intn(len(wordEdges))]
		} else {
			ws[i] = rng.Uint32()
		}
	}
	return ws
}

func wordsStr(ws []uint32) string {
	if len(ws) == 0 {
		return "-"
	}
	s := make([]string, len(ws))
	for i, w := range ws {
		s[i] = fmt.Sprint(w)
	}
	return strings.Join(s, ",")
}

// call NextDelayMillis with a scripted random source; returns delay, words consumed, ran out
// A call that keeps drawing (a resampling loop that never ends) is cut off after drawLimit words beyond the script.
func callNext(b retry.Backoff, n int, ws []uint32) (d int64, used int, ranOut bool) {
	i := 0
	fastrand.Next = func() uint32 {
		if i < len(ws) {
			v := ws[i]
			i++
			return v
		}
		ranOut = true
		i++
		if i > len(ws)+drawLimit {
			panic(errDrawLimit)
		}
		return 0
	}
	defer func() {
		if p := recover(); p != nil {
			if p != interface{}(errDrawLimit) {
				panic(p)
			}
			d, used, ranOut = math.MinInt64, i, true
		}
	}()
	d = b.NextDelayMillis(n)
	return d, i, ranOut
}

const drawLimit = 256

var errDrawLimit = errors.New("random source drawn without end")

var rateEdges = []float64{-1, -0.5, math.Copysign(0, -1), 0, 0.5, 1, -0.2, 0.2, 0.3, math.Nextafter(-1, 0), math.Nextafter(1, 0),
	math.SmallestNonzeroFloat64, -math.SmallestNonzeroFloat64, 1e-17, -1e-17, 0.999999, -0.999999}

func validRate() float64 {
	if rng.Intn(2) == 0 {
		return rateEdges[rng.Intn(len(rateEdges))]
	}
	return rng.Float64()*2 - 1
}

var multEdges = []float64{math.Nextafter(1, 2), 1.0000001, 1.1, 1.5, 2, 3, 10, 1e10, 1e154, 1e308, math.MaxFloat64, math.Inf(1)}

func validMult() float64 {
	switch rng.Intn(3) {
	case 0:
		return multEdges[rng.Intn(len(multEdges))]
	case 1:
		return 1 + rng.Float64()*3 + 1e-9
	default:
		return math.Float64frombits(0x3FF0000000000001 + rng.Uint64()%(0x7FF0000000000000-0x3FF0000000000001))
	}
}

var attemptEdges = []int{1, 2, 3, 4, 5, 10, 53, 54, 62, 63, 64, 65, 1023, 1024, 1025, 1026, 2000, 1 << 31, 1<<31 + 1, 1<<62 + 1, math.MaxInt64}

func anyAttempt() int {
	if rng.Intn(2) == 0 {
		return attemptEdges[rng.Intn(len(attemptEdges))]
	}
	return 1 + rng.Intn(70)
}

func genValidBase() *bspec {
	switch rng.Intn(3) {
	case 0:
		return &bspec{kind: 'F', d: nonNegInt()}
	case 1:
		lo, hi := nonNegInt(), nonNegInt()
		if lo > hi {
			lo, hi = hi, lo
		}
		if rng.Intn(6) == 0 {
			hi = lo + int64(rng.Intn(3))
			if hi < lo {
				hi = lo
			}
		}
		return &bspec{kind: 'R', lo: lo, hi: hi}
	default:
		i, m := nonNegInt(), nonNegInt()
		if i > m {
			i, m = m, i
		}
		if rng.Intn(3) == 0 {
			m = math.MaxInt64
		}
		return &bspec{kind: 'E', init: i, max: m, mult: validMult()}
	}
}

func genValidStack() *bspec {
	b := genValidBase()
	if rng.Intn(10) == 0 { // NoRetry-like stop delays flowing through layers: not constructible via NewFixed, use limit instead
	}
	depth := rng.Intn(4)
	if rng.Intn(6) == 0 {
		depth = 4 + rng.Intn(6) // deep stacks: more layers than the builder's initial capacity
	}
	for l := depth; l > 0; l-- {
		if rng.Intn(2) == 0 {
			ks := []int{1, 2, 3, 5, 64, 1025, 1 << 31, math.MaxInt64}
			b = &bspec{kind: 'L', k: ks[rng.Intn(len(ks))], inner: b}
		} else {
			lo, hi := validRate(), validRate()
			if lo > hi {
				lo, hi = hi, lo
			}
			if rng.Intn(5) == 0 {
				hi = lo
			}
			b = &bspec{kind: 'J', jlo: lo, jhi: hi, inner: b}
		}
	}
	return b
}

var two63 = new(big.Int).Lsh(big.NewInt(1), 63)
var maxI64Big = big.NewInt(math.MaxInt64)

func floorRat(r *big.Rat) *big.Int {
	q := new(big.Int)
	m := new(big.Int)
	q.DivMod(r.Num(), r.Denom(), m)
	return q
}

func satBig(x *big.Int) int64 {
	if x.Cmp(maxI64Big) > 0 {
		return math.MaxInt64
	}
	if x.Sign() < 0 {
		return 0
	}
	return x.Int64()
}

// envelope monitor for one layer, given the delay of the layer below (for wrappers)
// returns "" if the observed delay r is inside the documented envelope
func (b *bspec) envelope(n int, r int64, inner int64, pw float64) string {
	switch b.kind {
	case 'F':
		if r != b.d {
			return fmt.Sprintf("fixed returned %d want %d", r, b.d)
		}
	case 'R':
		if r < b.lo || r > b.hi {
			return fmt.Sprintf("random returned %d outside [%d,%d]", r, b.lo, b.hi)
		}
	case 'E':
		if n == 1 && r != b.init {
			return fmt.Sprintf("exponential attempt 1 returned %d want initial %d", r, b.init)
		}
		if r < b.init || r > b.max {
			return fmt.Sprintf("exponential returned %d outside [initial %d, max %d]", r, b.init, b.max)
		}
		if b.init == 0 && r != 0 {
			return fmt.Sprintf("exponential with initial 0 returned %d", r)
		}
		if n > 1 && n-1 <= 4096 && !math.IsInf(b.mult, 0) {
			// exact value with 300-bit floats: initial * mult^(n-1)
			x := new(big.Float).SetPrec(300).SetFloat64(b.mult)
			acc := new(big.Float).SetPrec(300).SetInt64(1)
			for e := n - 1; e > 0; e >>= 1 {
				if e&1 == 1 {
					acc.Mul(acc, x)
				}
				x.Mul(x, x)
				if acc.IsInf() || x.IsInf() {
					break
				}
			}
			if !acc.IsInf() {
				acc.Mul(acc, new(big.Float).SetPrec(300).SetInt64(b.init))
				lo := new(big.Float).SetPrec(300).Mul(acc, big.NewFloat(1-1e-12))
				hi := new(big.Float).SetPrec(300).Mul(acc, big.NewFloat(1+1e-12))
				loI, _ := lo.Int(nil)
				hiI, _ := hi.Int(nil)
				loI.Sub(loI, big.NewInt(1))
				hiI.Add(hiI, big.NewInt(1))
				mx := big.NewInt(b.max)
				if loI.Cmp(mx) > 0 {
					loI = mx
				}
				if hiI.Cmp(mx) > 0 {
					hiI = mx
				}
				rb := big.NewInt(r)
				if rb.Cmp(loI) < 0 || rb.Cmp(hiI) > 0 {
					return fmt.Sprintf("exponential returned %d, exact initial*mult^(n-1) clamped is in [%s,%s]", r, loI, hiI)
				}
			}
		}
	case 'J':
		if inner <= 0 {
			if r != inner {
				return fmt.Sprintf("jitter turned stop/zero delay %d into %d", inner, r)
			}
			return ""
		}
		if r < 0 {
			return fmt.Sprintf("jitter returned negative %d for delay %d", r, inner)
		}
		d := new(big.Rat).SetInt64(inner)
		one := big.NewRat(1, 1)
		rlo := new(big.Rat).SetFloat64(b.jlo)
		rhi := new(big.Rat).SetFloat64(b.jhi)
		if rlo == nil || rhi == nil {
			return "monitor: cannot convert rate"
		}
		eps := new(big.Rat).SetFrac(big.NewInt(1), new(big.Int).Lsh(big.NewInt(1), 50))
		lo := new(big.Rat).Mul(d, new(big.Rat).Add(one, rlo))
		hi := new(big.Rat).Mul(d, new(big.Rat).Add(one, rhi))
		// tolerance for evaluation in float64: relative 2^-50 of the delay, plus 1
		slack := new(big.Rat).Add(new(big.Rat).Mul(d, eps), one)
		lo.Sub(lo, slack)
		hi.Add(hi, slack)
		loI := satBig(floorRat(lo))
		hiI := satBig(new(big.Int).Add(floorRat(hi), big.NewInt(1)))
		if r < loI || r > hiI {
			return fmt.Sprintf("jitter returned %d for delay %d rates [%g,%g]: outside [%d,%d]", r, inner, b.jlo, b.jhi, loI, hiI)
		}
	case 'L':
		if n >= b.k {
			if r >= 0 {
				return fmt.Sprintf("limit %d at attempt %d returned non-negative %d", b.k, n, r)
			}
		} else if r != inner {
			return fmt.Sprintf("limit %d at attempt %d returned %d, wrapped delay %d", b.k, n, r, inner)
		}
	}
	return ""
}

// monitor the whole stack: every layer's output against its envelope given the layer below
func monitorStack(b *bspec, n int, ws []uint32, pw float64) string {
	var layers []*bspec
	for x := b; x != nil; x = x.inner {
		layers = append(layers, x)
	}
	// evaluate bottom-up; each layer object re-run from the same words (deterministic prefix consumption)
	var innerDelay int64
	for i := len(layers) - 1; i >= 0; i-- {
		obj := layers[i].construct()
		if obj == nil {
			return "monitor: layer not constructible"
		}
		r, _, _ := callNext(obj, n, ws)
		if msg := layers[i].envelope(n, r, innerDelay, pw); msg != "" {
			return msg + " [layer: " + layers[i].expr() + "]"
		}
		if layers[i].kind == 'L' && n >= layers[i].k {
			// the limit does not consult the layer below
		}
		innerDelay = r
	}
	return ""
}

func wordsForU(u uint64, n int) []uint32 {
	// randomInt64() = (w1 & 0x7FFFFFFF) << 32 | w2 and the helper uses u = randomInt64() >> 1
	res := u<<1 | uint64(rng.Intn(2))
	ws := genWords(n)
	ws[0] = uint32(res>>32)&0x7FFFFFFF | uint32(rng.Intn(2))<<31
	ws[1] = uint32(res)
	return ws
}

// genBigBound: draws with bounds around 2^61, 2^62 and up to 2^63 - 1, and random words that put u = randomInt64()>>1 next
// to the bound, to 0 and to 2^62 - 1. This is where the resampling loop of nextRandomInt64IncludingZero would be entered if
// its test `u < result-mask` could be true (Lean: Retry.no_reject shows it cannot); the model executes the same loop (rejLoop),
// so any variant of the test that does resample here shows up as a different delay / word count.
func genBigBound() (*bspec, []uint32) {
	small := func() int64 { return int64(rng.Intn(5)) - 2 }
	var bound int64 // the argument of nextRandomInt64IncludingZero
	switch rng.Intn(6) {
	case 0:
		bound = 1<<62 + 1 + int64(rng.Intn(1000))
	case 1:
		bound = 1<<62 + small()
	case 2:
		bound = 1<<61 + small()
	case 3:
		bound = math.MaxInt64 - 2 - int64(rng.Intn(1000))
	case 4:
		bound = 3<<60 + int64(rng.Intn(1<<30))
	default:
		bound = 1<<61 + rng.Int63n(3<<61-2)
	}
	var b *bspec
	if rng.Intn(3) != 0 {
		// random back-off: nextRandomInt64(hi-lo) = nextRandomInt64IncludingZero(hi-lo-1) + 1
		lo := []int64{0, 1, 2, 1000}[rng.Intn(4)]
		if lo > math.MaxInt64-bound-1 {
			lo = 0
		}
		b = &bspec{kind: 'R', lo: lo, hi: lo + bound + 1}
	} else {
		// jitter band of width about `bound`: delay d with rates [-1/2, 1/2] (width d+1), [0,1] or [-1,0] (width d+1), [-1,1] (width 2d+1, wraps)
		rates := [][2]float64{{-0.5, 0.5}, {0, 1}, {-1, 0}, {-1, 1}, {-0.25, 0.25}}[rng.Intn(5)]
		d := bound
		if rates[1]-rates[0] < 1 {
			d = bound/2 + bound/4
		}
		b = &bspec{kind: 'J', jlo: rates[0], jhi: rates[1], inner: &bspec{kind: 'F', d: d}}
	}
	ub := uint64(bound)
	targets := []uint64{ub - 1, ub, ub + 1, ub - 2, 1<<62 - 1, 1<<62 - 2, 0, 1, ub / 2, ub%(1<<62) + 1, (2 * ub) % (1 << 62), rng.Uint64()}
	ws := wordsForU(targets[rng.Intn(len(targets))]%(1<<62), 8)
	if rng.Intn(4) == 0 {
		b = &bspec{kind: 'L', k: []int{1, 2, 64, math.MaxInt64}[rng.Intn(4)], inner: b}
	}
	return b, ws
}

func runRetry(count int) {
	for i := 0; i < count; i++ {
		b := genValidStack()
		n := anyAttempt()
		nRand := 0 // layers that may draw (two words each when they do)
		var ws []uint32
		if rng.Intn(8) == 0 {
			b, ws = genBigBound()
			stats["retry big-bound cases"]++
		}
		for x := b; x != nil; x = x.inner {
			if x.kind == 'R' || x.kind == 'J' {
				nRand++
			}
		}
		if ws == nil {
			ws = genWords(2*nRand + 6)
		}
		base := b.base()
		pw := 0.0
		if base.kind == 'E' {
			pw = math.Pow(base.mult, float64(n-1))
		}
		route := genRoute()
		req := fmt.Sprintf("retry %s n %d pw %s ws %s via %c", b.expr(), n, fbits(pw), wordsStr(ws), route)
		obj := b.constructVia(route)
		stats["retry route "+string(route)]++
		if obj == nil {
			emit(req, "err", "FAIL C05 valid parameters rejected (route "+string(route)+": d = constructors nested directly, b = BackoffBuilder.BaseBackoff + layers): "+b.expr())
			continue
		}
		d, used, ranOut := callNext(obj, n, ws)
		impl := fmt.Sprintf("%d %d", d, used)
		mon := "ok"
		if ranOut || used > 2*nRand {
			mon = fmt.Sprintf("FAIL C05 random source drawn %d times by %d drawing layers (rejection loop iterated)", used, nRand)
		} else if msg := monitorStack(b, n, ws, pw); msg != "" {
			mon = "FAIL C05 " + msg
		} else if base.kind == 'E' && b.kind == 'E' && n < math.MaxInt64 {
			// non-decreasing in n (rounding aside: math.Pow is monotone here)
			d2, _, _ := callNext(obj, n+1, ws)
			if d2 < d {
				mon = fmt.Sprintf("FAIL C05 exponential decreased from %d (n=%d) to %d (n=%d)", d, n, d2, n+1)
			}
		}
		emit(req, impl, mon)
	}
}
