package main

import (
	"fmt"
	"math"
	"reflect"
	"time"
	"unsafe"

	cbreaker "go.linecorp.com/garr/circuit-breaker"
)

type zeroTicker struct{}

func (zeroTicker) Tick() int64 { return 0 }

var durEdges = []int64{math.MinInt64, -1 << 62, -2, -1, 0, 1, 2, 3, 1000, 1e9, 1 << 62, math.MaxInt64 - 1, math.MaxInt64}

func anyDur() int64 {
	if rng.Intn(3) == 0 {
		return anyInt()
	}
	return durEdges[rng.Intn(len(durEdges))]
}

func anyCtorFloat(around ...float64) float64 {
	switch rng.Intn(3) {
	case 0:
		c := around[rng.Intn(len(around))]
		switch rng.Intn(3) {
		case 0:
			return c
		case 1:
			return math.Nextafter(c, math.Inf(1))
		default:
			return math.Nextafter(c, math.Inf(-1))
		}
	case 1:
		return specialFloats[rng.Intn(len(specialFloats))]
	default:
		return randFloatBits()
	}
}

func genAnyBase() *bspec {
	switch rng.Intn(3) {
	case 0:
		return &bspec{kind: 'F', d: anyInt()}
	case 1:
		lo := anyInt()
		hi := anyInt()
		if rng.Intn(3) == 0 {
			hi = lo + int64(rng.Intn(3)) - 1
		}
		return &bspec{kind: 'R', lo: lo, hi: hi}
	default:
		i := anyInt()
		m := anyInt()
		if rng.Intn(3) == 0 {
			m = i + int64(rng.Intn(3)) - 1
		}
		return &bspec{kind: 'E', init: i, max: m, mult: anyCtorFloat(1, 0, 2)}
	}
}

// configOf digs the accepted *CircuitBreakerConfig out of a built breaker (the field is unexported and there is no accessor;
// the getters of the configuration are public API, so they are exercised on the object the breaker really uses).
func configOf(cb cbreaker.CircuitBreaker) *cbreaker.CircuitBreakerConfig {
	nb, ok := cb.(*cbreaker.NonBlockingCircuitBreaker)
	if !ok || nb == nil {
		return nil
	}
	f := reflect.ValueOf(nb).Elem().FieldByName("config")
	if !f.IsValid() || f.Kind() != reflect.Ptr || f.Type() != reflect.TypeOf((*cbreaker.CircuitBreakerConfig)(nil)) {
		return nil
	}
	return (*cbreaker.CircuitBreakerConfig)(unsafe.Pointer(f.Pointer()))
}

// a listener; `failing` ones return an error from every callback (also from the notification the constructor sends): what a listener
// returns is logged, it must not influence whether a configuration is accepted
type nopListener struct {
	id      int
	failing bool
}

func (l *nopListener) err() error {
	if l.failing {
		return fmt.Errorf("listener %d is not ready", l.id)
	}
	return nil
}
func (l *nopListener) OnStateChanged(cbreaker.CircuitBreaker, cbreaker.CircuitState) error { return l.err() }
func (l *nopListener) OnEventCountUpdated(cbreaker.CircuitBreaker, *cbreaker.EventCount) error {
	return l.err()
}
func (l *nopListener) OnRequestRejected(cbreaker.CircuitBreaker) error { return l.err() }
func (*nopListener) Stop()                                           {}

// gettersEcho: the configuration a breaker was built from must be what its getters say (C20: "accepted" means accepted as given)
func gettersEcho(cfg *cbreaker.CircuitBreakerConfig, thr float64, mr, tr, op, w, iv int64, name *cbreaker.Name, ls []cbreaker.CircuitBreakerListener) string {
	var bad []string
	chk := func(what string, ok bool, got interface{}) {
		if !ok {
			bad = append(bad, fmt.Sprintf("%s=%v", what, got))
		}
	}
	chk("GetName", cfg.GetName() == name, cfg.GetName())
	chk("GetFailureRateThreshold", fbits(cfg.GetFailureRateThreshold()) == fbits(thr), cfg.GetFailureRateThreshold())
	chk("GetMinimumRequestThreshold", cfg.GetMinimumRequestThreshold() == mr, cfg.GetMinimumRequestThreshold())
	chk("GetTrialRequestInterval", int64(cfg.GetTrialRequestInterval()) == tr, int64(cfg.GetTrialRequestInterval()))
	chk("GetCircuitOpenWindow", int64(cfg.GetCircuitOpenWindow()) == op, int64(cfg.GetCircuitOpenWindow()))
	chk("GetCounterSlidingWindow", int64(cfg.GetCounterSlidingWindow()) == w, int64(cfg.GetCounterSlidingWindow()))
	chk("GetCounterUpdateInterval", int64(cfg.GetCounterUpdateInterval()) == iv, int64(cfg.GetCounterUpdateInterval()))
	got := cfg.Getlisteners()
	same := len(got) == len(ls)
	for i := 0; same && i < len(ls); i++ {
		same = got[i] == ls[i]
	}
	chk("Getlisteners", same, len(got))
	if len(bad) > 0 {
		return fmt.Sprint(bad)
	}
	return ""
}

// nil arguments of the breaker-side constructors (C20; the Lean model has no notion of a missing ticker / configuration,
// so these are judged by this monitor only). valid is a configuration that was just accepted, or nil.
func nilArgChecks(valid *cbreaker.CircuitBreakerConfig, thr float64, mr, tr, op, w, iv int64) (verdict string) {
	defer func() {
		if p := recover(); p != nil {
			verdict = fmt.Sprintf("a constructor handed a nil ticker / nil configuration panicked instead of failing with an error: %v", p)
		}
	}()
	// the builder's default ticker (SystemTicker) is a ticker: acceptance is decided by the configuration alone
	if _, err := cbreaker.NewCircuitBreakerBuilder().SetFailureRateThreshold(thr).SetMinimumRequestThreshold(mr).
		SetTrialRequestInterval(time.Duration(tr)).SetCircuitOpenWindow(time.Duration(op)).
		SetCounterSlidingWindow(time.Duration(w)).SetCounterUpdateInterval(time.Duration(iv)).Build(); (err == nil) != (valid != nil) {
		return fmt.Sprintf("builder with its default ticker: accepted=%v, with an explicit ticker accepted=%v", err == nil, valid != nil)
	}
	if _, err := cbreaker.NewCircuitBreakerBuilder().SetTicker(nil).SetFailureRateThreshold(thr).SetMinimumRequestThreshold(mr).
		SetTrialRequestInterval(time.Duration(tr)).SetCircuitOpenWindow(time.Duration(op)).
		SetCounterSlidingWindow(time.Duration(w)).SetCounterUpdateInterval(time.Duration(iv)).Build(); err == nil {
		return "builder with a nil ticker built a breaker"
	}
	if nb, err := cbreaker.NewNonBlockingCircuitBreaker(zeroTicker{}, nil); err == nil || nb != nil {
		return "NewNonBlockingCircuitBreaker(ticker, nil config) did not fail"
	}
	if nb, err := cbreaker.NewNonBlockingCircuitBreaker(nil, nil); err == nil || nb != nil {
		return "NewNonBlockingCircuitBreaker(nil, nil) did not fail"
	}
	if nb, err := cbreaker.NewNonBlockingCircuitBreaker(nil, &cbreaker.CircuitBreakerConfig{}); err == nil || nb != nil {
		return "NewNonBlockingCircuitBreaker(nil ticker, zero config) did not fail"
	}
	if valid != nil {
		if nb, err := cbreaker.NewNonBlockingCircuitBreaker(nil, valid); err == nil || nb != nil {
			return "NewNonBlockingCircuitBreaker(nil ticker, accepted config) did not fail"
		}
		if nb, err := cbreaker.NewNonBlockingCircuitBreaker(zeroTicker{}, valid); err != nil || nb == nil {
			return fmt.Sprintf("NewNonBlockingCircuitBreaker(ticker, config accepted by the builder) failed: %v", err)
		} else if configOf(nb) != valid {
			return "NewNonBlockingCircuitBreaker does not use the configuration it was given"
		}
	}
	if sw, err := cbreaker.NewSlidingWindowCounter(nil, time.Duration(w), time.Duration(iv)); err == nil || sw != nil {
		return "NewSlidingWindowCounter(nil ticker) did not fail"
	}
	if w > 0 && iv > 0 {
		if sw, err := cbreaker.NewSlidingWindowCounter(zeroTicker{}, time.Duration(w), time.Duration(iv)); err != nil || sw == nil {
			return fmt.Sprintf("NewSlidingWindowCounter(ticker, %d, %d) failed: %v", w, iv, err)
		}
	}
	return ""
}

// runCtor: constructors and the breaker configuration accept exactly their documented domain (C20).
func runCtor(count int, _ []string) {
	for i := 0; i < count; i++ {
		if rng.Intn(3) == 0 {
			// breaker configuration
			thr := anyCtorFloat(0, 1, 0.5)
			mr := anyInt()
			tr, op, w, iv := anyDur(), anyDur(), anyDur(), anyDur()
			switch rng.Intn(4) {
			case 0:
				iv = w
			case 1:
				iv = w - 1
			case 2:
				iv = w + 1
			}
			if rng.Intn(2) == 0 { // mostly-valid stream: only one field off
				if tr <= 0 && rng.Intn(2) == 0 {
					tr = 1
				}
				if op <= 0 && rng.Intn(2) == 0 {
					op = 1
				}
			}
			if rng.Intn(4) == 0 { // valid stream with pairwise different fields: the getters must not mix them up
				thr = []float64{0.5, 1, 0.8, math.SmallestNonzeroFloat64, math.Nextafter(1, 0), 1.0 / 3}[rng.Intn(6)]
				ds := []int64{1, 2, 3, 1000, 1e9, 1 << 62, math.MaxInt64 - 1}
				p := rng.Perm(len(ds))
				tr, op, iv, w = ds[p[0]], ds[p[1]], ds[p[2]], ds[p[3]]
				if w <= iv {
					w, iv = iv, w
				}
			}
			stats["cfg cases"]++
			if rng.Intn(40) == 0 {
				// the zero configuration handed straight to the constructor
				_, err := cbreaker.NewNonBlockingCircuitBreaker(zeroTicker{}, &cbreaker.CircuitBreakerConfig{})
				impl, mon := "ok", "FAIL C20 NewNonBlockingCircuitBreaker accepted the zero configuration"
				if err != nil {
					impl, mon = "err", "ok"
				}
				emit("cfg 0 0 0 0 0 0", impl, mon)
				continue
			}
			req := fmt.Sprintf("cfg %s %d %d %d %d %d", fbits(thr), mr, tr, op, w, iv)
			bld := cbreaker.NewCircuitBreakerBuilder().SetTicker(zeroTicker{}).
				SetFailureRateThreshold(thr).SetMinimumRequestThreshold(mr).
				SetTrialRequestInterval(time.Duration(tr)).SetCircuitOpenWindow(time.Duration(op)).
				SetCounterSlidingWindow(time.Duration(w)).SetCounterUpdateInterval(time.Duration(iv))
			// glue that must not influence acceptance: a name, listeners (a nil listener is not registered)
			var name *cbreaker.Name
			if rng.Intn(2) == 0 {
				name = &cbreaker.Name{Namespace: "ns", Subsystem: "ctor", Name: fmt.Sprint(i)}
				bld.Name(name)
			}
			var ls []cbreaker.CircuitBreakerListener
			for k := rng.Intn(3); k > 0; k-- {
				if rng.Intn(3) == 0 {
					bld.AddListener(nil)
				}
				l := &nopListener{id: k, failing: rng.Intn(3) == 0}
				ls = append(ls, l)
				bld.AddListener(l)
			}
			cb, err := bld.Build()
			impl := "ok"
			if err != nil {
				impl = "err"
			}
			want := thr == thr && 0 < thr && thr <= 1 && tr > 0 && op > 0 && w > 0 && iv > 0 && w > iv
			mon := "ok"
			var accepted *cbreaker.CircuitBreakerConfig
			if want != (err == nil) {
				mon = fmt.Sprintf("FAIL C20 breaker config thr=%v(bits %s) trial=%d open=%d window=%d interval=%d: accepted=%v, documented domain says %v",
					thr, fbits(thr), tr, op, w, iv, err == nil, want)
			} else if err == nil {
				stats["cfg accepted (getters compared)"]++
				if accepted = configOf(cb); accepted == nil {
					impl, mon = "ok-config-not-found", "FAIL C20 harness cannot locate the configuration of the built breaker (field NonBlockingCircuitBreaker.config)"
				} else {
					str := accepted.String() // no property says anything about the text; it must not disturb the configuration
					if msg := gettersEcho(accepted, thr, mr, tr, op, w, iv, name, ls); msg != "" {
						impl = "ok-getters-differ"
						mon = fmt.Sprintf("FAIL C20 breaker config thr=%v trial=%d open=%d window=%d interval=%d min=%d accepted, but its getters answer %s", thr, tr, op, w, iv, mr, msg)
					} else if str == "" {
						mon = "FAIL C20 String() of an accepted configuration is empty"
					} else if cb.Name() != name {
						mon = fmt.Sprintf("FAIL C20 breaker built with name %v answers Name() = %v", name, cb.Name())
					}
				}
			}
			if mon == "ok" && rng.Intn(4) == 0 {
				stats["cfg nil-argument probes"]++
				if msg := nilArgChecks(accepted, thr, mr, tr, op, w, iv); msg != "" {
					mon = "FAIL C20 " + msg
				}
			}
			emit(req, impl, mon)
			continue
		}
		b := genAnyBase()
		depth := rng.Intn(3)
		if rng.Intn(5) == 0 {
			depth = 4 + rng.Intn(6) // deep stacks: more layers than the builder's initial capacity; an invalid layer anywhere must be rejected
		}
		for l := depth; l > 0; l-- {
			if rng.Intn(2) == 0 {
				ks := []int{math.MinInt64, -1, 0, 1, 2, math.MaxInt64}
				b = &bspec{kind: 'L', k: ks[rng.Intn(len(ks))], inner: b}
			} else {
				lo, hi := anyCtorFloat(-1, 1, 0), anyCtorFloat(-1, 1, 0)
				if rng.Intn(4) == 0 {
					hi = lo
				}
				b = &bspec{kind: 'J', jlo: lo, jhi: hi, inner: b}
			}
		}
		route := genRoute()
		req := fmt.Sprintf("ctor %s via %c", b.expr(), route)
		obj := b.constructVia(route)
		stats["ctor route "+string(route)]++
		if b.inner != nil && !b.inner.inDomain() {
			stats["ctor wrapper over a layer that cannot be built (nil delegate / failing Build), route "+string(route)]++
		}
		impl := "ok"
		if obj == nil {
			impl = "err"
		}
		mon := "ok"
		if want := b.inDomain(); want != (obj != nil) {
			mon = fmt.Sprintf("FAIL C20 constructor %s (route %c: d = constructors nested directly, a failed layer below is passed on as a nil delegate; b = BackoffBuilder): accepted=%v, documented domain says %v", b.expr(), route, obj != nil, want)
		}
		emit(req, impl, mon)
	}
}

func init() { extraModes["ctor"] = runCtor }
