package main

import (
	"fmt"
	"math"
	"time"

	cbreaker "go.linecorp.com/garr/circuit-breaker"
)

type zeroTicker struct{}

func (zeroTicker) Tick() int64 { return 0 }

var durEdges = []int64{math.MinInt64, -1 << 62, -2, -1, 0, 1, 2, 3, 1000, 1e9, 1 << 62, math.MaxInt64 - 1, math.MaxInt64}

func anyDur() int64 {
	if rng.Intn(3) == 0 {
		return anyInt()
	}
	return durEdges[rng.Intn(len(durEdges))]
}

func anyCtorFloat(around ...float64) float64 {
	switch rng.Intn(3) {
	case 0:
		c := around[rng.Intn(len(around))]
		switch rng.Intn(3) {
		case 0:
			return c
		case 1:
			return math.Nextafter(c, math.Inf(1))
		default:
			return math.Nextafter(c, math.Inf(-1))
		}
	case 1:
		return specialFloats[rng.Intn(len(specialFloats))]
	default:
		return randFloatBits()
	}
}

func genAnyBase() *bspec {
	switch rng.Intn(3) {
	case 0:
		return &bspec{kind: 'F', d: anyInt()}
	case 1:
		lo := anyInt()
		hi := anyInt()
		if rng.Intn(3) == 0 {
			hi = lo + int64(rng.Intn(3)) - 1
		}
		return &bspec{kind: 'R', lo: lo, hi: hi}
	default:
		i := anyInt()
		m := anyInt()
		if rng.Intn(3) == 0 {
			m = i + int64(rng.Intn(3)) - 1
		}
		return &bspec{kind: 'E', init: i, max: m, mult: anyCtorFloat(1, 0, 2)}
	}
}

// runCtor: constructors and the breaker configuration accept exactly their documented domain (C20).
func runCtor(count int, _ []string) {
	for i := 0; i < count; i++ {
		if rng.Intn(3) == 0 {
			// breaker configuration
			thr := anyCtorFloat(0, 1, 0.5)
			mr := anyInt()
			tr, op, w, iv := anyDur(), anyDur(), anyDur(), anyDur()
			switch rng.Intn(4) {
			case 0:
				iv = w
			case 1:
				iv = w - 1
			case 2:
				iv = w + 1
			}
			if rng.Intn(2) == 0 { // mostly-valid stream: only one field off
				if tr <= 0 && rng.Intn(2) == 0 {
					tr = 1
				}
				if op <= 0 && rng.Intn(2) == 0 {
					op = 1
				}
			}
			req := fmt.Sprintf("cfg %s %d %d %d %d %d", fbits(thr), mr, tr, op, w, iv)
			_, err := cbreaker.NewCircuitBreakerBuilder().SetTicker(zeroTicker{}).
				SetFailureRateThreshold(thr).SetMinimumRequestThreshold(mr).
				SetTrialRequestInterval(time.Duration(tr)).SetCircuitOpenWindow(time.Duration(op)).
				SetCounterSlidingWindow(time.Duration(w)).SetCounterUpdateInterval(time.Duration(iv)).Build()
			impl := "ok"
			if err != nil {
				impl = "err"
			}
			want := thr == thr && 0 < thr && thr <= 1 && tr > 0 && op > 0 && w > 0 && iv > 0 && w > iv
			mon := "ok"
			if want != (err == nil) {
				mon = fmt.Sprintf("FAIL C20 breaker config thr=%v(bits %s) trial=%d open=%d window=%d interval=%d: accepted=%v, documented domain says %v",
					thr, fbits(thr), tr, op, w, iv, err == nil, want)
			}
			emit(req, impl, mon)
			continue
		}
		b := genAnyBase()
		for l := rng.Intn(3); l > 0; l-- {
			if rng.Intn(2) == 0 {
				ks := []int{math.MinInt64, -1, 0, 1, 2, math.MaxInt64}
				b = &bspec{kind: 'L', k: ks[rng.Intn(len(ks))], inner: b}
			} else {
				lo, hi := anyCtorFloat(-1, 1, 0), anyCtorFloat(-1, 1, 0)
				if rng.Intn(4) == 0 {
					hi = lo
				}
				b = &bspec{kind: 'J', jlo: lo, jhi: hi, inner: b}
			}
		}
		req := "ctor " + b.expr()
		obj := b.construct()
		impl := "ok"
		if obj == nil {
			impl = "err"
		}
		mon := "ok"
		if want := b.inDomain(); want != (obj != nil) {
			mon = fmt.Sprintf("FAIL C20 constructor %s: accepted=%v, documented domain says %v", b.expr(), obj != nil, want)
		}
		emit(req, impl, mon)
	}
}

func init() { extraModes["ctor"] = runCtor }
