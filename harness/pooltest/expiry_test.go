package pooltest

import (
	"bufio"
	"context"
	"fmt"
	"os"
	"strconv"
	"sync"
	"sync/atomic"
	"testing"
	"testing/synctest"
	"time"

	"garrshim/vsched"
	workerpool "go.linecorp.com/garr/worker-pool"
)

// TestExpiryBurst re-observes known finding F10 (C11, "reaches its cap ... for all timings of idle expiry versus new bursts"):
// an expanded worker's idle timer expires at the very instant a burst of two submissions arrives. The first submission fills the
// queue slot, the second finds the expansion limit still reached (the leaving worker has not given its reservation back yet),
// undoes its own reservation and parks in Do; the leaving worker (its select may also simply pick the expired timer although a task
// is queued) exits. Result: two tasks pending, only the fixed worker running, nobody re-evaluates the expansion: the pool stays
// below NumberWorker+ExpandableLimit until a worker becomes free or another submission arrives. Kernel-checked model-level witness:
// Garr.Props.PoolProgress.blocked_do_limit_not_exhausted. POOL_RUNS rounds in virtual time; one MON line.
func TestExpiryBurst(t *testing.T) {
	rounds, _ := strconv.Atoi(os.Getenv("POOL_RUNS"))
	monf, err := os.Create(os.Getenv("POOL_MON"))
	if err != nil {
		t.Fatal(err)
	}
	mon := bufio.NewWriter(monf)
	defer func() { mon.Flush(); monf.Close() }()
	fmt.Fprintf(mon, "RUN 0 expiry-burst probe: NumberWorker=1 ExpandableLimit=1 ExpandedLifetime=50ms; fixed worker busy; expanded worker idle until exactly its deadline; then two Execute calls at once; %d rounds\n", rounds)
	hits, over := 0, 0
	for r := 0; r < rounds; r++ {
		synctest.Test(t, func(t *testing.T) {
			p := workerpool.NewPool(context.Background(), workerpool.Option{NumberWorker: 1, ExpandableLimit: 1, ExpandedLifetime: 50 * time.Millisecond})
			var running int32
			gate := make(chan struct{})
			blockExec := func(context.Context) (interface{}, error) {
				atomic.AddInt32(&running, 1)
				<-gate
				atomic.AddInt32(&running, -1)
				return nil, nil
			}
			quick := func(context.Context) (interface{}, error) { return nil, nil }
			p.Execute(blockExec) // the fixed worker is busy from now on
			synctest.Wait()
			p.Execute(quick) // queued
			p.Execute(quick) // queue full: an expanded worker is spawned and runs both
			synctest.Wait()
			time.Sleep(50 * time.Millisecond) // exactly the expanded worker's deadline
			go p.Execute(blockExec)
			go p.Execute(blockExec)
			synctest.Wait()
			switch n := atomic.LoadInt32(&running); {
			case n == 1:
				hits++ // two tasks pending, only the fixed worker runs
			case n > 2:
				over++
			}
			close(gate)
			p.Stop()
		})
	}
	if over > 0 {
		fmt.Fprintf(mon, "MON 0 FAIL C11 expiry-burst probe: more than NumberWorker+ExpandableLimit tasks ran at once in %d of %d rounds\n", over, rounds)
	} else if hits > 0 {
		fmt.Fprintf(mon, "MON 0 FAIL C11 expiry-burst: in %d of %d rounds two tasks stayed pending (one queued, one parked in Do) while only the fixed worker ran (cap 2): the expiring expanded worker left and nobody re-evaluated the expansion\n", hits, rounds)
	} else {
		fmt.Fprintf(mon, "MON 0 ok subs=%d\n", rounds)
	}
}

// TestIdleLifetime (C11, "expanded workers exit after being idle for ExpandedLifetime, and the full expansion capacity is available
// again afterwards"), deterministic in virtual time: an expanded worker runs a task that lasts several lifetimes, then stays alive for
// exactly one more lifetime of idleness, then is gone; afterwards a new burst expands the pool to its cap again.
func TestIdleLifetime(t *testing.T) {
	rounds, _ := strconv.Atoi(os.Getenv("POOL_RUNS"))
	monf, err := os.Create(os.Getenv("POOL_MON"))
	if err != nil {
		t.Fatal(err)
	}
	mon := bufio.NewWriter(monf)
	defer func() { mon.Flush(); monf.Close() }()
	for r := 0; r < rounds; r++ {
		nw, limit := 1+r%2, 1+(r/2)%2
		life := time.Duration(20+10*(r%5)) * time.Millisecond
		long := time.Duration(1+r%4) * life // how long the expanded workers' first tasks run (in lifetimes)
		fmt.Fprintf(mon, "RUN %d idle-lifetime probe: NumberWorker=%d ExpandableLimit=%d ExpandedLifetime=%v task duration %v\n", r, nw, limit, life, long)
		msg := ""
		synctest.Test(t, func(t *testing.T) {
			p := workerpool.NewPool(context.Background(), workerpool.Option{NumberWorker: nw, ExpandableLimit: int32(limit), ExpandedLifetime: life})
			var running int32
			hold := make(chan struct{})  // fixed workers' tasks
			gate := make(chan struct{})  // expanded workers' first tasks
			gate2 := make(chan struct{}) // second burst
			mk := func(g chan struct{}) func(context.Context) (interface{}, error) {
				return func(context.Context) (interface{}, error) {
					atomic.AddInt32(&running, 1)
					<-g
					atomic.AddInt32(&running, -1)
					return nil, nil
				}
			}
			for i := 0; i < nw; i++ {
				p.Execute(mk(hold))
				synctest.Wait() // a fixed worker has taken it (otherwise the next submission would find the slot taken and expand)
			}
			// limit further tasks: each finds the queue full after the first and expands; all run at once
			for i := 0; i < limit; i++ {
				go p.Execute(mk(gate))
				synctest.Wait()
			}
			go p.Execute(mk(gate)) // one more keeps the queue slot occupied until a worker is free
			synctest.Wait()
			if n := int(atomic.LoadInt32(&running)); n != nw+limit {
				msg = fmt.Sprintf("C11 idle-lifetime probe: %d tasks run at once with %d more pending, expected NumberWorker %d + ExpandableLimit %d", n, 1, nw, limit)
			}
			time.Sleep(long) // the expanded workers are busy (not idle) all this time
			close(gate)      // they finish, take the queued task, finish it too, and are idle from now on
			synctest.Wait()
			if w := countWorkers(); w != nw+limit && msg == "" {
				msg = fmt.Sprintf("C11 idle-lifetime probe: %d pool goroutines right after the expanded workers became idle, expected %d (an expanded worker left without having been idle)", w, nw+limit)
			}
			time.Sleep(life - time.Millisecond)
			synctest.Wait()
			if w := countWorkers(); w != nw+limit && msg == "" {
				msg = fmt.Sprintf("C11 idle-lifetime probe: %d pool goroutines after %v of idleness (ExpandedLifetime %v), expected %d: an expanded worker left early", w, life-time.Millisecond, life, nw+limit)
			}
			time.Sleep(2 * time.Millisecond)
			synctest.Wait()
			if w := countWorkers(); w != nw && msg == "" {
				msg = fmt.Sprintf("C11 idle-lifetime probe: %d pool goroutines after %v of idleness (ExpandedLifetime %v), expected only the %d fixed workers", w, life+time.Millisecond, life, nw)
			}
			// the full expansion capacity is available again
			for i := 0; i < limit+1; i++ {
				go p.Execute(mk(gate2))
				synctest.Wait()
			}
			if n := int(atomic.LoadInt32(&running)); n != nw+limit && msg == "" {
				msg = fmt.Sprintf("C11 idle-lifetime probe: after the expanded workers expired a new burst runs %d tasks at once, expected %d again", n, nw+limit)
			}
			close(hold)
			close(gate2)
			p.Stop()
		})
		if msg != "" {
			fmt.Fprintf(mon, "MON %d FAIL %s\n", r, msg)
		} else {
			fmt.Fprintf(mon, "MON %d ok subs=%d\n", r, nw+2*limit+2)
		}
	}
}

// TestExpansionChurn (C11, "the full expansion capacity is available again afterwards", for all timings of idle expiry versus new
// bursts), free-running on the real scheduler: phases of churn - several submitters of short tasks on a pool whose expanded workers
// live for microseconds only, so that expiries keep coinciding with submitters that find the pool at its limit - alternate with
// quiescence (every expanded worker gone) and a capacity probe: gated tasks are submitted until NumberWorker+ExpandableLimit of them
// run at once. A further gated task is added every few milliseconds while the cap has not been reached: each such submission finds the
// queue slot taken and re-evaluates the expansion, so neither a worker that idled out before its first task nor the parked submitter
// of known finding F10 keeps a correct pool below its cap for long; only a pool that has lost expansion capacity for good stays below.
// Never may more than the cap run at once. POOL_RUNS = budget in milliseconds.
func TestExpansionChurn(t *testing.T) {
	budgetMs, _ := strconv.Atoi(os.Getenv("POOL_RUNS"))
	seed, _ := strconv.ParseInt(os.Getenv("POOL_SEED"), 10, 64)
	monf, err := os.Create(os.Getenv("POOL_MON"))
	if err != nil {
		t.Fatal(err)
	}
	mon := bufio.NewWriter(monf)
	defer func() { mon.Flush(); monf.Close() }()
	deadline := time.Now().Add(time.Duration(budgetMs) * time.Millisecond)
	chaos, _ := strconv.Atoi(os.Getenv("POOL_CHAOS")) // see TestStress
	atomic.StoreInt32(&vsched.ChaosPerMille, int32(chaos))
	defer atomic.StoreInt32(&vsched.ChaosPerMille, 0)
	for round := 0; round == 0 || time.Now().Before(deadline); round++ {
		// mostly one fixed worker and several short-lived expanded ones: the most expiries per submission
		fixed, limit, life := 1, 4, 20*time.Microsecond
		if round%4 == 3 {
			fixed = 1 + int(seed+int64(round))%2
			limit = 1 + int(seed/2+int64(round))%4
			life = []time.Duration{50 * time.Microsecond, 5 * time.Microsecond, 10 * time.Microsecond}[(round/4)%3]
		}
		opt := workerpool.Option{NumberWorker: fixed, ExpandableLimit: int32(limit), ExpandedLifetime: life}
		fmt.Fprintf(mon, "RUN %d expansion churn: opt=%+v; 8 submitters of short tasks for 3 x 50ms, after each: quiescence, then gated tasks until the cap runs\n", round, opt)
		mon.Flush()
		p := workerpool.NewPool(context.Background(), opt)
		var running, maxRunning int32
		enter := func() {
			n := atomic.AddInt32(&running, 1)
			for {
				m := atomic.LoadInt32(&maxRunning)
				if n <= m || atomic.CompareAndSwapInt32(&maxRunning, m, n) {
					return
				}
			}
		}
		msg := ""
		subs := 0
		for phase := 0; phase < 3 && msg == ""; phase++ {
			stop := make(chan struct{})
			var wg sync.WaitGroup
			var nsub int64
			for s := 0; s < 8; s++ {
				wg.Add(1)
				go func(s int) {
					defer wg.Done()
					for i := 0; ; i++ {
						select {
						case <-stop:
							return
						default:
						}
						spin := 200 * (1 + (i+s)%7)
						task := p.Execute(func(context.Context) (interface{}, error) {
							enter()
							for k := 0; k < spin; k++ {
								_ = atomic.LoadInt32(&maxRunning)
							}
							atomic.AddInt32(&running, -1)
							return nil, nil
						})
						atomic.AddInt64(&nsub, 1)
						if (i+s)%5 == 0 {
							<-task.Result()
						}
					}
				}(s)
			}
			time.Sleep(50 * time.Millisecond)
			close(stop)
			wg.Wait()
			subs += int(nsub)
			for k := 0; k < 5000 && atomic.LoadInt32(&running) != 0; k++ {
				time.Sleep(time.Millisecond)
			}
			time.Sleep(10 * time.Millisecond) // every expanded worker has been idle for many lifetimes
			// capacity probe
			gate := make(chan struct{})
			var started int32
			var pw sync.WaitGroup
			submit := func() {
				pw.Add(1)
				go func() {
					defer pw.Done()
					task := p.Execute(func(context.Context) (interface{}, error) {
						enter()
						atomic.AddInt32(&started, 1)
						<-gate
						atomic.AddInt32(&running, -1)
						return nil, nil
					})
					<-task.Result()
				}()
			}
			cap := int32(fixed + limit)
			for i := int32(0); i < cap+1; i++ {
				submit()
			}
			extra := 0
			for until := time.Now().Add(8 * time.Second); time.Now().Before(until) && atomic.LoadInt32(&started) < cap; {
				time.Sleep(3 * time.Millisecond)
				if atomic.LoadInt32(&started) < cap {
					submit()
					extra++
				}
			}
			time.Sleep(5 * time.Millisecond)
			if got := atomic.LoadInt32(&started); got < cap {
				msg = fmt.Sprintf("C11 after churn and quiescence (every expanded worker idle for >100 lifetimes) %d gated tasks plus %d more, one every 3ms for 8s, never made more than %d tasks run at once; NumberWorker %d + ExpandableLimit %d = %d: expansion capacity was lost", cap+1, extra, got, fixed, limit, cap)
			}
			close(gate)
			pw.Wait()
			subs += int(cap) + 1 + extra
			time.Sleep(2 * time.Millisecond)
		}
		if m := atomic.LoadInt32(&maxRunning); int(m) > fixed+limit && msg == "" {
			msg = fmt.Sprintf("C11 %d tasks ran at once on a pool with NumberWorker %d + ExpandableLimit %d", m, fixed, limit)
		}
		p.Stop()
		if msg != "" {
			fmt.Fprintf(mon, "MON %d FAIL %s\n", round, msg)
		} else {
			fmt.Fprintf(mon, "MON %d ok subs=%d\n", round, subs)
		}
	}
}
