package pooltest

import (
	"bufio"
	"context"
	"fmt"
	"os"
	"strconv"
	"sync/atomic"
	"testing"
	"testing/synctest"
	"time"

	workerpool "go.linecorp.com/garr/worker-pool"
)

// TestExpiryBurst re-observes known finding F10 (C11, "reaches its cap ... for all timings of idle expiry versus new bursts"):
// an expanded worker's idle timer expires at the very instant a burst of two submissions arrives. The first submission fills the
// queue slot, the second finds the expansion limit still reached (the leaving worker has not given its reservation back yet),
// undoes its own reservation and parks in Do; the leaving worker (its select may also simply pick the expired timer although a task
// is queued) exits. Result: two tasks pending, only the fixed worker running, nobody re-evaluates the expansion: the pool stays
// below NumberWorker+ExpandableLimit until a worker becomes free or another submission arrives. Kernel-checked model-level witness:
// Garr.Props.PoolProgress.blocked_do_limit_not_exhausted. POOL_RUNS rounds in virtual time; one MON line.
func TestExpiryBurst(t *testing.T) {
	rounds, _ := strconv.Atoi(os.Getenv("POOL_RUNS"))
	monf, err := os.Create(os.Getenv("POOL_MON"))
	if err != nil {
		t.Fatal(err)
	}
	mon := bufio.NewWriter(monf)
	defer func() { mon.Flush(); monf.Close() }()
	fmt.Fprintf(mon, "RUN 0 expiry-burst probe: NumberWorker=1 ExpandableLimit=1 ExpandedLifetime=50ms; fixed worker busy; expanded worker idle until exactly its deadline; then two Execute calls at once; %d rounds\n", rounds)
	hits, over := 0, 0
	for r := 0; r < rounds; r++ {
		synctest.Test(t, func(t *testing.T) {
			p := workerpool.NewPool(context.Background(), workerpool.Option{NumberWorker: 1, ExpandableLimit: 1, ExpandedLifetime: 50 * time.Millisecond})
			var running int32
			gate := make(chan struct{})
			blockExec := func(context.Context) (interface{}, error) {
				atomic.AddInt32(&running, 1)
				<-gate
				atomic.AddInt32(&running, -1)
				return nil, nil
			}
			quick := func(context.Context) (interface{}, error) { return nil, nil }
			p.Execute(blockExec) // the fixed worker is busy from now on
			synctest.Wait()
			p.Execute(quick) // queued
			p.Execute(quick) // queue full: an expanded worker is spawned and runs both
			synctest.Wait()
			time.Sleep(50 * time.Millisecond) // exactly the expanded worker's deadline
			go p.Execute(blockExec)
			go p.Execute(blockExec)
			synctest.Wait()
			switch n := atomic.LoadInt32(&running); {
			case n == 1:
				hits++ // two tasks pending, only the fixed worker runs
			case n > 2:
				over++
			}
			close(gate)
			p.Stop()
		})
	}
	if over > 0 {
		fmt.Fprintf(mon, "MON 0 FAIL C11 expiry-burst probe: more than NumberWorker+ExpandableLimit tasks ran at once in %d of %d rounds\n", over, rounds)
	} else if hits > 0 {
		fmt.Fprintf(mon, "MON 0 FAIL C11 expiry-burst: in %d of %d rounds two tasks stayed pending (one queued, one parked in Do) while only the fixed worker ran (cap 2): the expiring expanded worker left and nobody re-evaluated the expansion\n", hits, rounds)
	} else {
		fmt.Fprintf(mon, "MON 0 ok subs=%d\n", rounds)
	}
}
