package pooltest

import (
	"bufio"
	"fmt"
	"io"
	"math/rand"
	"os"
	"runtime"
	"strconv"
	"strings"
	"sync"
	"sync/atomic"
	"testing"
	"testing/synctest"
	"time"

	"garrshim/vchan"
	"garrshim/vsched"
	"garrshim/vsync"
)

// TestShimSemantics validates a part of the trusted base of the step-level pool tie (harness/poolstep): the shim that replaces Go's
// channels, select and timers in the instrumented copy of worker-pool (harness/shim/vchan) is written from the language specification —
// here it is run against the REAL runtime. The same random sequence of operations is executed once on real buffered channels and real
// *time.Timer values (inside a testing/synctest bubble: virtual time, Go >= 1.23 timer semantics) and once on the shim (inside a
// one-thread vsched run, the shim's virtual clock); every observable outcome must agree: whether a non-blocking send / receive proceeds,
// the value and the ok flag received, len after every step, the panics of send-on-closed and close-of-closed, what Stop and Reset report
// and whether an expired timer's value can (still) be received. POOL_RUNS sequences; one MON line.
type shimOp struct {
	kind string // send recv close tstop treset trecv sleep selpair
	v    int
	d    int // ticks
}

func genShimOps(rng *rand.Rand) (capacity int, ops []shimOp) {
	capacity = 1 + rng.Intn(3)
	n := 4 + rng.Intn(14)
	for i := 0; i < n; i++ {
		switch r := rng.Intn(100); {
		case r < 28:
			ops = append(ops, shimOp{kind: "send", v: 100 + i})
		case r < 52:
			ops = append(ops, shimOp{kind: "recv"})
		case r < 58:
			ops = append(ops, shimOp{kind: "close"})
		case r < 68:
			ops = append(ops, shimOp{kind: "tstop"})
		case r < 78:
			ops = append(ops, shimOp{kind: "treset", d: 1 + rng.Intn(4)})
		case r < 86:
			ops = append(ops, shimOp{kind: "trecv"})
		case r < 94:
			ops = append(ops, shimOp{kind: "sleep", d: 1 + rng.Intn(4)})
		default:
			ops = append(ops, shimOp{kind: "selpair", v: 100 + i}) // select { case v := <-ch: ; case <-timer.C: ; default: } (first ready case in source order is not Go's rule: see below)
		}
	}
	return
}

const shimTick = time.Millisecond

// real runtime
func runRealOps(t *testing.T, capacity int, ops []shimOp) (out []string) {
	synctest.Test(t, func(t *testing.T) {
		ch := make(chan int, capacity)
		tm := time.NewTimer(3 * shimTick)
		for _, o := range ops {
			res := ""
			func() {
				defer func() {
					if p := recover(); p != nil {
						res = fmt.Sprintf("panic:%v", p)
					}
				}()
				switch o.kind {
				case "send":
					select {
					case ch <- o.v:
						res = "sent"
					default:
						res = "full"
					}
				case "recv":
					select {
					case v, ok := <-ch:
						res = fmt.Sprintf("recv %d %v", v, ok)
					default:
						res = "empty"
					}
				case "close":
					close(ch)
					res = "closed"
				case "tstop":
					res = fmt.Sprintf("stop %v", tm.Stop())
				case "treset":
					res = fmt.Sprintf("reset %v", tm.Reset(time.Duration(o.d)*shimTick))
				case "trecv":
					select {
					case <-tm.C:
						res = "fired"
					default:
						res = "notfired"
					}
				case "sleep":
					time.Sleep(time.Duration(o.d) * shimTick)
					synctest.Wait()
					res = "slept"
				case "selpair":
					// which cases are READY is compared (Go picks uniformly among the ready ones): probe them one by one without consuming
					// from the channel when it can be avoided: len/closed-ness decide for the channel, a non-consuming probe is impossible
					// for the timer, so the timer is consumed in both worlds when it is ready
					rdyCh := len(ch) > 0
					rdyT := false
					select {
					case <-tm.C:
						rdyT = true
					default:
					}
					res = fmt.Sprintf("ready ch=%v timer=%v", rdyCh, rdyT)
				}
			}()
			out = append(out, fmt.Sprintf("%s -> %s len=%d", o.kind, res, len(ch)))
			if len(res) > 5 && res[:5] == "panic" {
				break
			}
		}
		tm.Stop()
	})
	return
}

// the shim, inside a one-thread controlled run
func runShimOps(capacity int, ops []shimOp) (out []string, crashed []string) {
	vchan.Reset()
	vchan.Now = 0
	vchan.Pick = nil
	vsched.CatchPanics = true
	defer func() { vsched.CatchPanics = false }()
	body := func() {
		ch := vchan.Make[int](capacity)
		tm := vchan.NewTimer(3 * time.Duration(1))
		for _, o := range ops {
			res := ""
			switch o.kind {
			case "send":
				if vchan.Select(true, vchan.CaseSend(ch, o.v)) == 0 {
					res = "sent"
				} else {
					res = "full"
				}
			case "recv":
				rc := vchan.CaseRecv(ch)
				if vchan.Select(true, rc) == 0 {
					res = fmt.Sprintf("recv %d %v", rc.V, rc.Ok)
				} else {
					res = "empty"
				}
			case "close":
				ch.Close()
				res = "closed"
			case "tstop":
				res = fmt.Sprintf("stop %v", tm.Stop())
			case "treset":
				res = fmt.Sprintf("reset %v", tm.Reset(time.Duration(o.d)))
			case "trecv":
				if vchan.Select(true, vchan.CaseTimer(tm)) == 0 {
					res = "fired"
				} else {
					res = "notfired"
				}
			case "sleep":
				vchan.Now += int64(o.d)
				res = "slept"
			case "selpair":
				rdyCh := ch.Len() > 0
				rdyT := vchan.Select(true, vchan.CaseTimer(tm)) == 0
				res = fmt.Sprintf("ready ch=%v timer=%v", rdyCh, rdyT)
			}
			if vsched.Dying() {
				return
			}
			out = append(out, fmt.Sprintf("%s -> %s len=%d", o.kind, res, ch.Len()))
		}
	}
	r := vsched.Run(bufio.NewWriter(io.Discard), nil, []func(){body}, 100000, func(runnable []int, step int) int {
		if len(runnable) == 0 {
			return -1
		}
		return runnable[0]
	})
	return out, r.Panics
}

func TestShimSemantics(t *testing.T) {
	seed, _ := strconv.ParseInt(os.Getenv("POOL_SEED"), 10, 64)
	first, _ := strconv.Atoi(os.Getenv("POOL_FIRST"))
	rounds, _ := strconv.Atoi(os.Getenv("POOL_RUNS"))
	monf, err := os.Create(os.Getenv("POOL_MON"))
	if err != nil {
		t.Fatal(err)
	}
	mon := bufio.NewWriter(monf)
	defer func() { mon.Flush(); monf.Close() }()
	fmt.Fprintf(mon, "RUN 0 shim-versus-runtime differential: %d random sequences of non-blocking send/receive/close on a buffered channel and Stop/Reset/receive/sleep on a timer, real runtime (synctest bubble) against harness/shim/vchan\n", rounds)
	bad := ""
	nops, npanics := 0, 0
	for k := first; k < first+rounds && bad == ""; k++ {
		rng := rand.New(rand.NewSource(seed*1000003 + int64(k)))
		capacity, ops := genShimOps(rng)
		real := runRealOps(t, capacity, ops)
		shim, crashed := runShimOps(capacity, ops)
		nops += len(real)
		// a panic ends both sequences: the real one records it as its last entry, the shim run ends with a recorded crash
		if n := len(real); n > 0 && len(real[n-1]) > 0 && containsPanic(real[n-1]) {
			npanics++
			if len(crashed) == 0 {
				bad = fmt.Sprintf("sequence %d (cap %d): the runtime panics at step %d (%s), the shim does not", k, capacity, n, real[n-1])
				break
			}
			real = real[:n-1]
		} else if len(crashed) > 0 {
			bad = fmt.Sprintf("sequence %d (cap %d): the shim panics (%v), the runtime does not", k, capacity, crashed)
			break
		}
		if len(real) != len(shim) {
			bad = fmt.Sprintf("sequence %d (cap %d): %d steps on the runtime, %d on the shim", k, capacity, len(real), len(shim))
			break
		}
		for i := range real {
			if real[i] != shim[i] {
				bad = fmt.Sprintf("sequence %d (cap %d) step %d: runtime `%s`, shim `%s`", k, capacity, i, real[i], shim[i])
				break
			}
		}
	}
	if bad != "" {
		fmt.Fprintf(mon, "MON 0 FAIL C04,C08,C11,C12,C17 the channel/timer shim of the step-level pool tie disagrees with the Go runtime: %s\n", bad)
	} else {
		fmt.Fprintf(mon, "MON 0 ok subs=%d ops=%d panics=%d\n", rounds, nops, npanics)
	}
}

func containsPanic(s string) bool {
	for i := 0; i+5 <= len(s); i++ {
		if s[i:i+5] == "panic" {
			return true
		}
	}
	return false
}

// ---- the shim's writer-preferring RWMutex against sync.RWMutex (the pool's submitLock: Stop announces itself, later submitters wait,
// TryDo's TryRLock fails while Stop holds or AWAITS the lock). One scenario, run on the real runtime with real goroutines (a goroutine
// "waits" when its stack shows it parked inside the lock call) and on the shim under the token scheduler:
//   A: RLock | W: Lock (must wait for A) | B: TryRLock -> false (a writer is pending) | C: RLock (must wait behind the pending writer)
//   A: RUnlock -> W acquires, C still waits | B: TryRLock -> false (a writer holds) | W: Unlock -> C acquires | B: TryRLock -> true
func parkedIn(fn string) int {
	buf := make([]byte, 1<<20)
	n := runtime.Stack(buf, true)
	c := 0
	for _, g := range strings.Split(string(buf[:n]), "\n\n") {
		if strings.Contains(g, fn+"(") && (strings.Contains(g, "[sync.RWMutex.Lock") || strings.Contains(g, "[sync.RWMutex.RLock") || strings.Contains(g, "[semacquire") || strings.Contains(g, "[sync.Mutex.Lock")) {
			c++
		}
	}
	return c
}

func waitUntil(cond func() bool) bool {
	for i := 0; i < 20000; i++ {
		if cond() {
			return true
		}
		time.Sleep(100 * time.Microsecond)
	}
	return false
}

func realRWScenario() (obs []string, conclusive bool) {
	var mu sync.RWMutex
	var wHas, cHas atomic.Bool
	wRelease := make(chan struct{})
	cRelease := make(chan struct{})
	done := make(chan struct{}, 2)
	mu.RLock() // A
	go func() { mu.Lock(); wHas.Store(true); <-wRelease; mu.Unlock(); done <- struct{}{} }()
	if !waitUntil(func() bool { return parkedIn("sync.(*RWMutex).Lock") == 1 }) {
		close(wRelease)
		mu.RUnlock()
		return nil, false
	}
	obs = append(obs, fmt.Sprintf("writer waits while a reader holds: %v", !wHas.Load()))
	obs = append(obs, fmt.Sprintf("TryRLock with a pending writer: %v", tryR(&mu)))
	go func() { mu.RLock(); cHas.Store(true); <-cRelease; mu.RUnlock(); done <- struct{}{} }()
	if !waitUntil(func() bool { return parkedIn("sync.(*RWMutex).RLock") == 1 }) {
		// (if the reader was admitted instead of parked it shows here)
		obs = append(obs, fmt.Sprintf("new reader admitted past a pending writer: %v", cHas.Load()))
	} else {
		obs = append(obs, fmt.Sprintf("new reader waits behind a pending writer: %v", !cHas.Load()))
	}
	mu.RUnlock() // A leaves
	if !waitUntil(wHas.Load) {
		return obs, false
	}
	obs = append(obs, fmt.Sprintf("writer acquires when the readers have left: %v; the waiting reader still waits: %v", wHas.Load(), !cHas.Load()))
	obs = append(obs, fmt.Sprintf("TryRLock while a writer holds: %v", tryR(&mu)))
	close(wRelease)
	if !waitUntil(cHas.Load) {
		return obs, false
	}
	obs = append(obs, fmt.Sprintf("waiting reader acquires after Unlock: %v", cHas.Load()))
	obs = append(obs, fmt.Sprintf("TryRLock next to a reader, no writer: %v", tryR(&mu)))
	close(cRelease)
	<-done
	<-done
	return obs, true
}

func tryR(mu *sync.RWMutex) bool {
	if mu.TryRLock() {
		mu.RUnlock()
		return true
	}
	return false
}

func shimRWScenario() (obs []string) {
	vsync.StepLevel = true
	defer func() { vsync.StepLevel = false }()
	var mu vsync.RWMutex
	wHas, cHas := false, false
	phase := 0 // advanced by the driver thread; W and C release when told
	tryS := func() bool {
		if mu.TryRLock() {
			mu.RUnlock()
			return true
		}
		return false
	}
	var wPending func() bool
	bodies := []func(){
		// 0: driver = A and B
		func() {
			mu.RLock()
			phase = 1
			vsched.BlockOn(func() bool { return wPending() })
			obs = append(obs, fmt.Sprintf("writer waits while a reader holds: %v", !wHas))
			obs = append(obs, fmt.Sprintf("TryRLock with a pending writer: %v", tryS()))
			phase = 2
			// give C every chance to get in: it must not
			for i := 0; i < 5; i++ {
				vsched.Point()
			}
			obs = append(obs, fmt.Sprintf("new reader waits behind a pending writer: %v", !cHas))
			mu.RUnlock()
			vsched.BlockOn(func() bool { return wHas })
			obs = append(obs, fmt.Sprintf("writer acquires when the readers have left: %v; the waiting reader still waits: %v", wHas, !cHas))
			obs = append(obs, fmt.Sprintf("TryRLock while a writer holds: %v", tryS()))
			phase = 3
			vsched.BlockOn(func() bool { return cHas })
			obs = append(obs, fmt.Sprintf("waiting reader acquires after Unlock: %v", cHas))
			obs = append(obs, fmt.Sprintf("TryRLock next to a reader, no writer: %v", tryS()))
			phase = 4
		},
		// 1: W
		func() {
			vsched.BlockOn(func() bool { return phase >= 1 })
			mu.Lock()
			wHas = true
			vsched.BlockOn(func() bool { return phase >= 3 })
			mu.Unlock()
		},
		// 2: C
		func() {
			vsched.BlockOn(func() bool { return phase >= 2 })
			mu.RLock()
			cHas = true
			vsched.BlockOn(func() bool { return phase >= 4 })
			mu.RUnlock()
		},
	}
	wPending = func() bool { return mu.WriterPending() }
	rr := 0
	vsched.Run(bufio.NewWriter(io.Discard), map[string]bool{vsync.Layer: true}, bodies, 100000, func(runnable []int, step int) int {
		if len(runnable) == 0 {
			return -1
		}
		rr++
		return runnable[rr%len(runnable)]
	})
	return obs
}

func TestShimRWMutex(t *testing.T) {
	rounds, _ := strconv.Atoi(os.Getenv("POOL_RUNS"))
	monf, err := os.Create(os.Getenv("POOL_MON"))
	if err != nil {
		t.Fatal(err)
	}
	mon := bufio.NewWriter(monf)
	defer func() { mon.Flush(); monf.Close() }()
	fmt.Fprintf(mon, "RUN 0 RWMutex scenario (reader, pending writer, TryRLock, late reader) on sync.RWMutex with real goroutines and on the cooperative shim; %d rounds\n", rounds)
	shim := shimRWScenario()
	ok, inconclusive := 0, 0
	for r := 0; r < rounds; r++ {
		real, conclusive := realRWScenario()
		if !conclusive {
			inconclusive++ // a goroutine was not seen parked within the time limit (loaded machine): nothing is concluded
			continue
		}
		if fmt.Sprint(real) != fmt.Sprint(shim) {
			fmt.Fprintf(mon, "MON 0 FAIL C04,C08,C11,C12,C17 the RWMutex shim of the step-level pool tie disagrees with sync.RWMutex: runtime %q, shim %q\n", real, shim)
			return
		}
		ok++
	}
	fmt.Fprintf(mon, "MON 0 ok subs=%d conclusive=%d inconclusive=%d\n", rounds, ok, inconclusive)
}
