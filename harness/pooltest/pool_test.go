// Package pooltest drives the REAL worker pool inside a testing/synctest bubble (virtual time, exact quiescence):
// after every harness action synctest.Wait() returns when all goroutines are durably blocked; the observation
// (returned calls, per-task execution/result status, live worker goroutines, panics) is printed for the Lean
// subset-construction acceptor (`act …` / `obs …` / `fin …` lines on the trace file) and judged by Go monitors.
package pooltest

import (
	"bufio"
	"context"
	"fmt"
	"math/rand"
	"os"
	"runtime"
	"sort"
	"strconv"
	"strings"
	"sync/atomic"
	"testing"
	"testing/synctest"
	"time"

	workerpool "go.linecorp.com/garr/worker-pool"
)

const unit = time.Millisecond

type taskRec struct {
	id       int
	kind     string // do try exec tryexec
	ctxKind  string // pool own never
	ctx      context.Context
	cancel   context.CancelFunc
	gate     chan struct{}
	task     *workerpool.Task
	execs    int32
	released bool
	sawCtx   context.Context
	returned bool
	accepted bool // Do returned, or TryDo returned true
	tryRes   bool
	submitAt int
	returnedStep int // step at which the submission was first seen returned (-1: not yet)
	cancelStep   int // step at which its own context was cancelled (-1: never)
	ctxDoneEver bool // the task's or the pool's context was done at some point (monitor bookkeeping)
}

type scenario struct {
	nworker, limit int
	lifetime       int // units
	autostart      bool
	actions        []string
}

type runState struct {
	t       *testing.T
	tr      *bufio.Writer
	pool    *workerpool.Pool
	pcancel context.CancelFunc
	tasks   []*taskRec
	rets    []string
	panics  int32
	sc      scenario
	msg     string
	msgs    []string
	step    int
	startStep    int // first step at which Start was issued (-1: never)
	poolDoneStep int // first step at which the pool context was cancelled (stop / cancelparent issued); -1 = never
	stopReturned bool
	stopCalled   bool
	poolDone     bool
	maxRunning   int
}

func (r *runState) fail(format string, args ...interface{}) {
	m := fmt.Sprintf(format, args...)
	if r.msg == "" {
		r.msg = m
	}
	tag := strings.SplitN(m, " ", 2)[0]
	for _, x := range r.msgs {
		if strings.HasPrefix(x, tag+" ") {
			return // one message per property tag
		}
	}
	r.msgs = append(r.msgs, m)
}

func countWorkers() int {
	buf := make([]byte, 1<<20)
	n := runtime.Stack(buf, true)
	s := string(buf[:n])
	c := 0
	for _, g := range strings.Split(s, "\n\n") {
		if strings.Contains(g, ".(*Pool).worker(") || strings.Contains(g, ".(*Pool).expandedWorker(") {
			c++
		}
	}
	return c
}

func (r *runState) observe(step int) {
	synctest.Wait()
	sort.Strings(r.rets)
	var ts []string
	running := 0
	for _, t := range r.tasks {
		ex := int(atomic.LoadInt32(&t.execs))
		run := 0
		if ex > 0 && !t.released {
			run = 1
			running++
		}
		nres := len(t.task.Result())
		res := ""
		if nres > 0 {
			res = "?"
		}
		ts = append(ts, fmt.Sprintf("%d:%d:%d:%s", t.id, ex, run, res))
		// ---- monitors on every quiescent observation
		if ex > 1 {
			r.fail("C04 task %d was executed %d times", t.id, ex)
		}
		if t.returned && t.kind == "try" && !t.tryRes && nres == 0 && ex > 0 {
			r.fail("C04 task %d was refused by TryDo (false, no error result) but was executed", t.id)
		}
	}
	if running > r.maxRunning {
		r.maxRunning = running
	}
	if running > r.sc.nworker+r.sc.limit {
		r.fail("C11 %d tasks execute simultaneously, cap is NumberWorker %d + ExpandableLimit %d", running, r.sc.nworker, r.sc.limit)
	}
	w := countWorkers()
	p := int(atomic.LoadInt32(&r.panics))
	if p > 0 {
		r.fail("C12 %d submission/Stop call(s) panicked", p)
	}
	fmt.Fprintf(r.tr, "obs rets=[%s] tasks=[%s] workers=%d panics=%d\n", strings.Join(r.rets, ","), strings.Join(ts, ","), w, p)
	if r.stopReturned {
		if w != 0 {
			r.fail("C08 Stop has returned but %d pool goroutine(s) are still alive", w)
		}
		for _, t := range r.tasks {
			if t.accepted && len(t.task.Result()) != 1 {
				r.fail("C08 Stop has returned but accepted task %d has no result (executions %d)", t.id, atomic.LoadInt32(&t.execs))
			}
			if !t.returned {
				r.fail("C12 Stop has returned but the submission of task %d is still blocked", t.id)
			}
		}
	}
}

func (r *runState) submit(kind, ctxKind string) {
	id := len(r.tasks)
	tr := &taskRec{id: id, kind: kind, ctxKind: ctxKind, gate: make(chan struct{}), returnedStep: -1, cancelStep: -1, submitAt: r.step}
	switch ctxKind {
	case "own":
		tr.ctx, tr.cancel = context.WithCancel(context.Background())
	case "never":
		tr.ctx = context.Background()
	}
	exec := func(ctx context.Context) (interface{}, error) {
		atomic.AddInt32(&tr.execs, 1)
		tr.sawCtx = ctx
		<-tr.gate
		return id, nil
	}
	tr.task = workerpool.NewTask(tr.ctx, exec)
	r.tasks = append(r.tasks, tr)
	go func() {
		defer func() {
			if p := recover(); p != nil {
				atomic.AddInt32(&r.panics, 1)
			}
		}()
		if kind == "do" {
			r.pool.Do(tr.task)
			tr.returned, tr.accepted = true, true
			r.rets = append(r.rets, fmt.Sprintf("do:%d", id))
		} else {
			b := r.pool.TryDo(tr.task)
			tr.returned, tr.tryRes, tr.accepted = true, b, b
			r.rets = append(r.rets, fmt.Sprintf("try:%d:%v", id, b))
		}
	}()
}

func (r *runState) runScenario() {
	sc := r.sc
	parent, pcancel := context.WithCancel(context.Background())
	r.pcancel = pcancel
	fmt.Fprintf(r.tr, "reset pool %d %d %d\n", sc.nworker, sc.limit, sc.lifetime)
	r.pool = workerpool.NewPool(parent, workerpool.Option{NumberWorker: sc.nworker, ExpandableLimit: int32(sc.limit),
		ExpandedLifetime: time.Duration(sc.lifetime) * unit, DisableAutoStart: true})
	r.poolDoneStep = -1
	r.startStep = -1
	for i, a := range sc.actions {
		r.step = i
		f := strings.Fields(a)
		fmt.Fprintf(r.tr, "act %s\n", a)
		switch f[0] {
		case "do", "try":
			r.submit(f[0], f[1])
		case "start":
			if r.startStep < 0 {
				r.startStep = i
			}
			go func() { r.pool.Start(); r.rets = append(r.rets, "start") }()
		case "stop":
			r.stopCalled = true
			if r.poolDoneStep < 0 {
				r.poolDoneStep = i
			}
			go func() {
				defer func() {
					if p := recover(); p != nil {
						atomic.AddInt32(&r.panics, 1)
					}
				}()
				r.pool.Stop()
				r.stopReturned = true
				r.rets = append(r.rets, "stop")
			}()
		case "finish":
			u, _ := strconv.Atoi(f[1])
			r.tasks[u].released = true
			close(r.tasks[u].gate)
		case "canceltask":
			u, _ := strconv.Atoi(f[1])
			r.tasks[u].cancel()
			if r.tasks[u].cancelStep < 0 {
				r.tasks[u].cancelStep = i
			}
		case "cancelparent":
			if r.poolDoneStep < 0 {
				r.poolDoneStep = i
			}
			r.pcancel()
			r.poolDone = true
		case "advance":
			d, _ := strconv.Atoi(f[1])
			time.Sleep(time.Duration(d) * unit)
		}
		r.observe(i)
		for _, t := range r.tasks {
			if t.returned && t.returnedStep < 0 {
				t.returnedStep = i
			}
		}
		// C17: TryDo never blocks — it must have returned by the next quiescent point
		if f[0] == "try" {
			if t := r.tasks[len(r.tasks)-1]; !t.returned && atomic.LoadInt32(&r.panics) == 0 {
				r.fail("C17 TryDo of task %d is blocked", t.id)
			}
		}
	}
	// epilogue (not part of the accepted trace): release everything, stop, and check the final accounting
	for _, t := range r.tasks {
		if !t.released {
			t.released = true
			close(t.gate)
		}
	}
	synctest.Wait()
	if !r.stopCalled {
		go func() {
			defer func() {
				if p := recover(); p != nil {
					atomic.AddInt32(&r.panics, 1)
				}
			}()
			r.pool.Stop()
			r.stopReturned = true
		}()
	}
	synctest.Wait()
	var fin []string
	for _, t := range r.tasks {
		kind := "none"
		select {
		case res := <-t.task.Result():
			if res.Err != nil {
				kind = "err"
				if atomic.LoadInt32(&t.execs) != 0 {
					r.fail("C04 task %d received a context-error result but was executed", t.id)
				}
				ctxDoneBy := func(step int) bool {
					return (r.poolDoneStep >= 0 && r.poolDoneStep <= step) || (t.cancelStep >= 0 && t.cancelStep <= step)
				}
				// the pool was running when the pool context was cancelled (or is still running): every task accepted before must run
				started := r.startStep >= 0 && (r.poolDoneStep < 0 || r.startStep < r.poolDoneStep)
				if started && t.accepted && t.returnedStep >= 0 && !ctxDoneBy(t.returnedStep) {
					r.fail("C04 task %d was accepted (its %s returned at step %d, before any context was cancelled) but was never executed and received a context error", t.id, t.kind, t.returnedStep)
					r.fail("C08 task %d was accepted before Stop was called but Stop returned without it having been executed (it got a context error instead)", t.id)
				}
			} else {
				kind = "val"
				if res.Result != t.id {
					r.fail("C04 task %d received result %v, its executor returned %d", t.id, res.Result, t.id)
				}
				if atomic.LoadInt32(&t.execs) != 1 {
					r.fail("C04 task %d has a value result but %d executions", t.id, atomic.LoadInt32(&t.execs))
				}
				if t.ctxKind != "pool" && t.sawCtx != t.ctx {
					r.fail("C04 task %d was executed with a context different from the one it was given", t.id)
				}
				if t.ctxKind == "pool" && t.sawCtx == nil {
					r.fail("C04 task %d without context was executed with a nil context instead of the pool's", t.id)
				}
			}
		default:
		}
		// a second result would have blocked a worker for ever; detect a second buffered value after draining one
		synctest.Wait()
		if len(t.task.Result()) != 0 {
			r.fail("C04 task %d received more than one result", t.id)
		}
		if t.accepted && kind == "none" {
			r.fail("C12 accepted task %d never received a result (executions %d)", t.id, atomic.LoadInt32(&t.execs))
		}
		if !t.returned {
			r.fail("C12 submission of task %d still blocked after Stop", t.id)
		}
		fin = append(fin, fmt.Sprintf("%d:%s", t.id, kind))
	}
	if !r.stopReturned {
		r.fail("C08 Stop did not return although every executor has finished")
	}
	if w := countWorkers(); w != 0 {
		r.fail("C08 %d pool goroutine(s) alive after Stop returned", w)
	}
	if p := atomic.LoadInt32(&r.panics); p > 0 {
		r.fail("C12 %d call(s) panicked", p)
	}
	fmt.Fprintf(r.tr, "end\n")
	_ = fin
}

func genScenario(rng *rand.Rand) scenario {
	sc := scenario{nworker: 1 + rng.Intn(2), limit: rng.Intn(3), lifetime: 50, autostart: rng.Intn(5) != 0}
	if sc.autostart {
		sc.actions = append(sc.actions, "start")
	}
	ntask := 0
	running := map[int]bool{} // submitted and not yet released (may or may not be running)
	own := map[int]bool{}
	n := 3 + rng.Intn(10)
	stopped, started := false, sc.autostart
	for i := 0; i < n; i++ {
		switch r := rng.Intn(100); {
		case r < 40:
			kind := []string{"do", "do", "try"}[rng.Intn(3)]
			ck := []string{"pool", "pool", "own", "never"}[rng.Intn(4)]
			sc.actions = append(sc.actions, kind+" "+ck)
			running[ntask] = true
			if ck == "own" {
				own[ntask] = true
			}
			ntask++
		case r < 60:
			for u := range running {
				sc.actions = append(sc.actions, fmt.Sprintf("finish %d", u))
				delete(running, u)
				break
			}
		case r < 68:
			for u := range own {
				sc.actions = append(sc.actions, fmt.Sprintf("canceltask %d", u))
				delete(own, u)
				break
			}
		case r < 72:
			sc.actions = append(sc.actions, "cancelparent")
		case r < 82:
			sc.actions = append(sc.actions, fmt.Sprintf("advance %d", []int{1, 49, 50, 51, 100}[rng.Intn(5)]))
		case r < 90:
			if !stopped {
				sc.actions = append(sc.actions, "stop")
				stopped = true
			}
		default:
			if !started || rng.Intn(4) == 0 {
				sc.actions = append(sc.actions, "start")
				started = true
			}
		}
	}
	return sc
}

func TestScenarios(t *testing.T) {
	seed, _ := strconv.ParseInt(os.Getenv("POOL_SEED"), 10, 64)
	first, _ := strconv.Atoi(os.Getenv("POOL_FIRST"))
	runs, _ := strconv.Atoi(os.Getenv("POOL_RUNS"))
	only := os.Getenv("POOL_ONLY")
	trf, err := os.Create(os.Getenv("POOL_TRACE"))
	if err != nil {
		t.Fatal(err)
	}
	tr := bufio.NewWriterSize(trf, 1<<20)
	monf, err := os.Create(os.Getenv("POOL_MON"))
	if err != nil {
		t.Fatal(err)
	}
	mon := bufio.NewWriter(monf)
	defer func() { tr.Flush(); trf.Close(); mon.Flush(); monf.Close() }()
	lo, hi := first, first+runs
	if only != "" {
		lo, _ = strconv.Atoi(only)
		hi = lo + 1
	}
	for run := lo; run < hi; run++ {
		rng := rand.New(rand.NewSource(seed*1000003 + int64(run)))
		sc := genScenario(rng)
		fmt.Fprintf(mon, "RUN %d nworker=%d limit=%d lifetime=%d actions=%s\n", run, sc.nworker, sc.limit, sc.lifetime, strings.Join(sc.actions, ";"))
		mon.Flush() // a crash of the binary (panic in a worker goroutine) leaves the scenario as replay
		r := &runState{t: t, tr: tr, sc: sc}
		synctest.Test(t, func(t *testing.T) { r.runScenario() })
		if len(r.msgs) > 0 {
			for _, m := range r.msgs {
				fmt.Fprintf(mon, "MON %d FAIL %s\n", run, m)
			}
		} else {
			fmt.Fprintf(mon, "MON %d ok actions=%d tasks=%d maxrunning=%d\n", run, len(sc.actions), len(r.tasks), r.maxRunning)
		}
	}
}

// TestStress: free-running submit-versus-Stop races on the real scheduler (no bubble): monitors only.
func TestStress(t *testing.T) {
	seed, _ := strconv.ParseInt(os.Getenv("POOL_SEED"), 10, 64)
	rounds, _ := strconv.Atoi(os.Getenv("POOL_RUNS"))
	monf, err := os.Create(os.Getenv("POOL_MON"))
	if err != nil {
		t.Fatal(err)
	}
	mon := bufio.NewWriter(monf)
	defer func() { mon.Flush(); monf.Close() }()
	rng := rand.New(rand.NewSource(seed))
	for round := 0; round < rounds; round++ {
		opt := workerpool.Option{NumberWorker: 1 + rng.Intn(3), ExpandableLimit: int32(rng.Intn(3)), ExpandedLifetime: time.Millisecond, DisableAutoStart: rng.Intn(4) == 0}
		desc := fmt.Sprintf("round=%d opt=%+v", round, opt)
		fmt.Fprintf(mon, "RUN %d %s\n", round, desc)
		mon.Flush()
		p := workerpool.NewPool(context.Background(), opt)
		type sub struct {
			task     *workerpool.Task
			accepted bool
			execs    int32
		}
		var subs []*sub
		done := make(chan *sub, 64)
		var panics int32
		nsub := 4 + rng.Intn(4)
		for i := 0; i < nsub; i++ {
			try := rng.Intn(3) == 0
			go func() {
				for k := 0; k < 3; k++ {
					s := &sub{}
					s.task = workerpool.NewTask(nil, func(context.Context) (interface{}, error) { atomic.AddInt32(&s.execs, 1); return 1, nil })
					func() {
						defer func() {
							if r := recover(); r != nil {
								atomic.AddInt32(&panics, 1)
							}
						}()
						if try {
							s.accepted = p.TryDo(s.task)
						} else {
							p.Do(s.task)
							s.accepted = true
						}
					}()
					done <- s
				}
			}()
		}
		if rng.Intn(3) == 0 {
			time.Sleep(time.Duration(rng.Intn(200)) * time.Microsecond)
		}
		if opt.DisableAutoStart && rng.Intn(2) == 0 {
			go p.Start()
		}
		p.Stop()
		msg := ""
		for i := 0; i < nsub*3; i++ {
			select {
			case s := <-done:
				subs = append(subs, s)
			case <-time.After(5 * time.Second):
				msg = "C12 a submission is still blocked 5s after Stop returned"
			}
		}
		for _, s := range subs {
			if !s.accepted {
				continue
			}
			select {
			case res := <-s.task.Result():
				if res.Err != nil && atomic.LoadInt32(&s.execs) != 0 {
					msg = "C04 task with a context-error result was executed"
				}
				if res.Err == nil && atomic.LoadInt32(&s.execs) != 1 {
					msg = fmt.Sprintf("C04 task with a value result executed %d times", s.execs)
				}
			case <-time.After(2 * time.Second):
				msg = "C12 accepted task never received a result (stranded)"
			}
		}
		if n := atomic.LoadInt32(&panics); n > 0 {
			msg = fmt.Sprintf("C12 %d submission(s) panicked", n)
		}
		if msg != "" {
			fmt.Fprintf(mon, "MON %d FAIL %s\n", round, msg)
		} else {
			fmt.Fprintf(mon, "MON %d ok subs=%d\n", round, len(subs))
		}
	}
}
