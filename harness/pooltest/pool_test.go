// Package pooltest drives the REAL worker pool inside a testing/synctest bubble (virtual time, exact quiescence):
// after every harness action synctest.Wait() returns when all goroutines are durably blocked; the observation
// (returned calls, per-task execution/result status, live worker goroutines, panics) is printed for the Lean
// subset-construction acceptor (`act …` / `obs …` / `fin …` lines on the trace file) and judged by Go monitors.
package pooltest

import (
	"bufio"
	"context"
	"fmt"
	"math/rand"
	"os"
	"runtime"
	"sort"
	"strconv"
	"strings"
	"sync"
	"sync/atomic"
	"testing"
	"testing/synctest"
	"time"

	"garrshim/vsched"
	workerpool "go.linecorp.com/garr/worker-pool"
)

const unit = time.Millisecond

type parentKey struct{}

// ownCtx is a task's own context with an error of its own (context.WithCancel would report context.Canceled, the same error as a
// cancelled pool context: a result carrying the WRONG context's error could not be told apart)
type ownCtx struct {
	done chan struct{}
	mu   sync.Mutex
	err  error
	id   int
}

type ownCtxErr struct{ id int }

func (e *ownCtxErr) Error() string { return fmt.Sprintf("the own context of task %d is done", e.id) }

func newOwnCtx(id int) *ownCtx { return &ownCtx{done: make(chan struct{}), id: id} }

func (c *ownCtx) Deadline() (time.Time, bool)       { return time.Time{}, false }
func (c *ownCtx) Done() <-chan struct{}             { return c.done }
func (c *ownCtx) Value(key interface{}) interface{} { return nil }
func (c *ownCtx) Err() error {
	c.mu.Lock()
	defer c.mu.Unlock()
	return c.err
}
func (c *ownCtx) cancel() {
	c.mu.Lock()
	if c.err == nil {
		c.err = &ownCtxErr{c.id}
		close(c.done)
	}
	c.mu.Unlock()
}

// execError is what some executors return as their own error (together with a value): it must arrive unchanged
var errParentCause = fmt.Errorf("cause given when the pool's parent context was cancelled")
var errTaskCause = fmt.Errorf("cause given when a task's own context was cancelled")

type execError struct{ id int }

func (e *execError) Error() string { return fmt.Sprintf("executor error of task %d", e.id) }

type taskRec struct {
	id           int
	kind         string // do try exec tryexec
	ctxKind      string // pool own never
	ctx          context.Context
	cancel       context.CancelFunc
	resStep      int     // first observation at which the task had a result (-1: none during the scenario; the epilogue's Stop may still deliver one)
	own          *ownCtx // non-nil: the own context is of the harness' type with a distinguishable error
	gate         chan struct{}
	task         *workerpool.Task
	execs        int32
	released     bool
	sawCtx       context.Context
	execErr      error
	returned     bool
	accepted     bool // Do returned, or TryDo returned true
	tryRes       bool
	submitAt     int
	returnedStep int  // step at which the submission was first seen returned (-1: not yet)
	cancelStep   int  // step at which its own context was cancelled (-1: never)
	ctxDoneEver  bool // the task's or the pool's context was done at some point (monitor bookkeeping)
	consumed     *workerpool.TaskResult // the finished task's result, taken from its channel before the object was handed over again
	next         *taskRec // the same *Task object was handed to the pool again (after a TryDo that returned false on a saturated pool): the attempt that now owns it
}

type scenario struct {
	nworker, limit int
	lifetime       int // units
	autostart      bool
	ctorStart      bool // auto-start through the constructor (DisableAutoStart=false) instead of an explicit Start call
	nilParent      bool // NewPool(nil, ...)
	zeroLifetime   bool // ExpandedLifetime <= 0 is normalised to one minute (lifetime holds the normalised value)
	actions        []string
}

type runState struct {
	t                *testing.T
	tr               *bufio.Writer
	pool             *workerpool.Pool
	pcancel          context.CancelFunc
	tasks            []*taskRec
	rets             []string
	panics           int32
	sc               scenario
	msg              string
	msgs             []string
	burstGate        chan struct{}
	mu               sync.Mutex // protects rets and the per-task return flags (submitters of a burst finish concurrently)
	step             int
	startStep        int // first step at which Start was issued (-1: never)
	poolDoneStep     int // first step at which the pool context was cancelled (stop / cancelparent issued); -1 = never
	stopReturned     bool
	stopReturnedStep int // first observation at which a Stop call was seen returned (-1: not yet)
	stopCalled       bool
	poolDone         bool
	maxRunning       int
}

// nres is the number of results buffered on the task's result channel; a submission through Execute* that is still
// blocked has not handed its task back yet (and cannot have a result)
func (t *taskRec) nres() int {
	if t.consumed != nil {
		return 1 // (its result was delivered; the harness took it from the channel when it re-used the object)
	}
	if t.task == nil {
		return 0
	}
	return len(t.task.Result())
}

func (r *runState) fail(format string, args ...interface{}) {
	m := fmt.Sprintf(format, args...)
	if r.msg == "" {
		r.msg = m
	}
	tag := strings.SplitN(m, " ", 2)[0]
	for _, x := range r.msgs {
		if strings.HasPrefix(x, tag+" ") {
			return // one message per property tag
		}
	}
	r.msgs = append(r.msgs, m)
}

func countWorkers() int {
	buf := make([]byte, 1<<20)
	n := runtime.Stack(buf, true)
	s := string(buf[:n])
	c := 0
	for _, g := range strings.Split(s, "\n\n") {
		if strings.Contains(g, ".(*Pool).worker(") || strings.Contains(g, ".(*Pool).expandedWorker(") {
			c++
		}
	}
	return c
}

func (r *runState) observe(step int) {
	synctest.Wait()
	r.mu.Lock()
	defer r.mu.Unlock()
	sort.Strings(r.rets)
	var ts []string
	running := 0
	for _, t := range r.tasks {
		ex := int(atomic.LoadInt32(&t.execs))
		run := 0
		if ex > 0 && !t.released {
			run = 1
			running++
		}
		nres := t.nres()
		if nres > 0 && t.resStep < 0 {
			t.resStep = step
		}
		res := ""
		if nres > 0 {
			res = "?"
		}
		ts = append(ts, fmt.Sprintf("%d:%d:%d:%s", t.id, ex, run, res))
		// ---- monitors on every quiescent observation
		if ex > 1 {
			r.fail("C04 task %d was executed %d times", t.id, ex)
		}
		if t.returned && t.kind == "try" && t.tryRes && nres > 0 && ex == 0 && !r.stopCalled {
			r.fail("C17 TryDo returned true for task %d although it was not handed over: it was refused with a context error (never executed, pool not stopped)", t.id)
		}
		if t.returned && t.kind == "try" && !t.tryRes && nres == 0 && ex > 0 {
			r.fail("C04 task %d was refused by TryDo (false, no error result) but was executed", t.id)
		}
	}
	if running > r.maxRunning {
		r.maxRunning = running
	}
	if running > r.sc.nworker+r.sc.limit {
		r.fail("C11 %d tasks execute simultaneously, cap is NumberWorker %d + ExpandableLimit %d", running, r.sc.nworker, r.sc.limit)
	}
	w := countWorkers()
	p := int(atomic.LoadInt32(&r.panics))
	if p > 0 {
		r.fail("C12 %d submission/Stop call(s) panicked", p)
	}
	fmt.Fprintf(r.tr, "obs rets=[%s] tasks=[%s] workers=%d panics=%d\n", strings.Join(r.rets, ","), strings.Join(ts, ","), w, p)
	if r.stopReturned {
		if r.stopReturnedStep < 0 {
			r.stopReturnedStep = step
		}
		if p > 0 {
			r.fail("C08 a call panicked although Stop has returned (a later Start/Stop/submission must have no effect)")
		}
		for _, t := range r.tasks {
			if t.submitAt > r.stopReturnedStep {
				if atomic.LoadInt32(&t.execs) > 0 {
					r.fail("C08 task %d was submitted after Stop had returned but was executed", t.id)
				}
				if t.returned && t.kind == "do" && t.nres() != 1 {
					r.fail("C08 task %d was submitted after Stop had returned: Do returned without the context-error result", t.id)
				}
			}
		}
		if w != 0 {
			r.fail("C08 Stop has returned but %d pool goroutine(s) are still alive", w)
		}
		for _, t := range r.tasks {
			if t.accepted && t.nres() != 1 {
				r.fail("C08 Stop has returned but accepted task %d has no result (executions %d)", t.id, atomic.LoadInt32(&t.execs))
			}
			if !t.returned {
				r.fail("C12 Stop has returned but the submission of task %d is still blocked", t.id)
			}
		}
	}
}

func (r *runState) submit(kind, ctxKind string) { r.submitTask(kind, ctxKind, nil) }

// retryCandidate: the latest task object that TryDo turned away because the pool was saturated (false, no result, never executed) and that
// has not been handed over again: the usual fallback `if !pool.TryDo(t) { pool.Do(t) }` submits the SAME object a second time
func (r *runState) retryCandidate() *taskRec {
	r.mu.Lock()
	defer r.mu.Unlock()
	for i := len(r.tasks) - 1; i >= 0; i-- {
		t := r.tasks[i]
		if t.kind == "try" && t.returned && !t.tryRes && t.next == nil && t.id%3 == 0 && t.task != nil && t.nres() == 0 &&
			atomic.LoadInt32(&t.execs) == 0 && (t.ctxKind == "pool" || t.ctxKind == "never") {
			return t
		}
		// a FINISHED task (executed, its value delivered) whose result the client has read: the object may be submitted again and is then
		// accepted, executed and answered a second time
		if t.returned && t.accepted && t.next == nil && t.consumed == nil && t.id%3 == 0 && t.task != nil && t.released && t.nres() == 1 &&
			atomic.LoadInt32(&t.execs) == 1 && (t.ctxKind == "pool" || t.ctxKind == "never") && i%2 == 0 {
			select {
			case res := <-t.task.Result():
				t.consumed = res // (executed once and released: it is the executor's value; the epilogue judges it like any other result)
				return t
			default:
			}
		}
	}
	return nil
}

func (r *runState) submitTask(kind, ctxKind string, reuse *taskRec) {
	id := len(r.tasks)
	tr := &taskRec{id: id, kind: kind, ctxKind: ctxKind, gate: make(chan struct{}), returnedStep: -1, cancelStep: -1, resStep: -1, submitAt: r.step}
	switch ctxKind {
	case "ownc": // an own context that is already done when the task is submitted
		oc := newOwnCtx(id)
		oc.cancel()
		tr.ctx, tr.cancel, tr.own, tr.cancelStep = oc, oc.cancel, oc, r.step
	case "own":
		if id%2 == 0 {
			oc := newOwnCtx(id)
			tr.ctx, tr.cancel, tr.own = oc, oc.cancel, oc
		} else {
			c, cc := context.WithCancelCause(context.Background())
			tr.ctx, tr.cancel = c, func() { cc(errTaskCause) }
		}
	case "never":
		tr.ctx = context.Background()
	}
	exec := func(ctx context.Context) (interface{}, error) {
		rec := tr
		for rec.next != nil {
			rec = rec.next // the task object was handed over again: the execution belongs to the attempt that owns it now
		}
		atomic.AddInt32(&rec.execs, 1)
		rec.sawCtx = ctx
		<-rec.gate
		if rec.id%4 == 3 {
			return rec.id, rec.execErr // the executor's own error travels with its value
		}
		return rec.id, nil
	}
	tr.execErr = &execError{id}
	// three equivalent routes through the API, chosen by task id: NewTask+Do/TryDo, Execute*/TryExecute* with an explicit
	// context argument (nil = the pool's), and (pool context only) plain Execute/TryExecute
	route := id % 3
	if route == 0 {
		tr.task = workerpool.NewTask(tr.ctx, exec)
	}
	if reuse != nil {
		// second submission of the same object (its own context is the one it was created with)
		route = 0
		tr.ctx, tr.task = reuse.ctx, reuse.task
		r.mu.Lock()
		reuse.next, reuse.task = tr, nil // the first attempt stays what it was: refused, never executed, no result
		r.mu.Unlock()
	}
	r.tasks = append(r.tasks, tr)
	gate := r.burstGate
	go func() {
		defer func() {
			if p := recover(); p != nil {
				atomic.AddInt32(&r.panics, 1)
			}
		}()
		if gate != nil {
			<-gate
		}
		if kind == "do" {
			var task *workerpool.Task
			switch {
			case route == 0:
				task = tr.task
				r.pool.Do(task)
			case route == 2 && ctxKind == "pool":
				task = r.pool.Execute(exec)
			default:
				task = r.pool.ExecuteWithCtx(tr.ctx, exec) // tr.ctx is nil for the pool context
			}
			r.mu.Lock()
			tr.task = task
			tr.returned, tr.accepted = true, true
			r.rets = append(r.rets, fmt.Sprintf("do:%d", id))
			r.mu.Unlock()
		} else {
			var task *workerpool.Task
			var b bool
			switch {
			case route == 0:
				task = tr.task
				b = r.pool.TryDo(task)
			case route == 2 && ctxKind == "pool":
				task, b = r.pool.TryExecute(exec)
			default:
				task, b = r.pool.TryExecuteWithCtx(tr.ctx, exec)
			}
			r.mu.Lock()
			tr.task = task
			tr.returned, tr.tryRes, tr.accepted = true, b, b
			r.rets = append(r.rets, fmt.Sprintf("try:%d:%v", id, b))
			r.mu.Unlock()
		}
	}()
}

func (r *runState) runScenario() {
	sc := r.sc
	// (contexts with a cancellation CAUSE: a refused task's result carries the context's error, ctx.Err(), not context.Cause(ctx))
	parent, pcancelCause := context.WithCancelCause(context.WithValue(context.Background(), parentKey{}, "parent-of-this-pool"))
	pcancel := func() { pcancelCause(errParentCause) }
	r.pcancel = pcancel
	fmt.Fprintf(r.tr, "reset pool %d %d %d\n", sc.nworker, sc.limit, sc.lifetime)
	lifetime := time.Duration(sc.lifetime) * unit
	if sc.zeroLifetime {
		lifetime = -time.Duration(sc.nworker) * unit // <= 0: normalised to time.Minute (= sc.lifetime units)
		if sc.limit == 1 {
			lifetime = 0
		}
	}
	var pctx context.Context = parent
	if sc.nilParent {
		pctx = nil
	}
	r.pool = workerpool.NewPool(pctx, workerpool.Option{NumberWorker: sc.nworker, ExpandableLimit: int32(sc.limit),
		ExpandedLifetime: lifetime, DisableAutoStart: !sc.ctorStart})
	r.poolDoneStep = -1
	r.startStep = -1
	r.stopReturnedStep = -1
	for i, a := range sc.actions {
		r.step = i
		f := strings.Fields(a)
		if f[0] == "stop" && r.stopCalled {
			// a repeated Stop is only issued once the first one has returned ("further Stop calls afterwards have no effect");
			// Stop calls concurrent with each other are outside C08's quantifier
			r.mu.Lock()
			ret := r.stopReturned
			r.mu.Unlock()
			if !ret {
				continue
			}
		}
		var reuse *taskRec
		if f[0] == "retry" {
			// "retry do|try": hand the task object of an earlier saturated TryDo to the pool again; a fresh pool-context task when there is none
			reuse = r.retryCandidate()
			ck := "pool"
			if reuse != nil {
				ck = reuse.ctxKind
			}
			f = []string{f[1], ck}
			a = f[0] + " " + ck
		}
		fmt.Fprintf(r.tr, "act %s\n", a)
		switch f[0] {
		case "do", "try":
			r.submitTask(f[0], f[1], reuse)
		case "burst":
			// several submissions released at the same instant: their steps interleave on the real scheduler
			n, _ := strconv.Atoi(f[1])
			start := make(chan struct{})
			r.burstGate = start
			for k := 0; k < n; k++ {
				r.submit("do", f[2])
			}
			r.burstGate = nil
			close(start)
		case "start":
			if r.startStep < 0 {
				r.startStep = i
			}
			if i == 0 && sc.ctorStart {
				// the constructor has already called Start (synchronously)
				r.mu.Lock()
				r.rets = append(r.rets, "start")
				r.mu.Unlock()
			} else {
				go func() { r.pool.Start(); r.mu.Lock(); r.rets = append(r.rets, "start"); r.mu.Unlock() }()
			}
		case "stop":
			r.stopCalled = true
			if r.poolDoneStep < 0 {
				r.poolDoneStep = i
			}
			go func() {
				defer func() {
					if p := recover(); p != nil {
						atomic.AddInt32(&r.panics, 1)
					}
				}()
				r.pool.Stop()
				r.mu.Lock()
				r.stopReturned = true
				r.rets = append(r.rets, "stop")
				r.mu.Unlock()
			}()
		case "finish":
			u, _ := strconv.Atoi(f[1])
			r.tasks[u].released = true
			close(r.tasks[u].gate)
		case "canceltask":
			u, _ := strconv.Atoi(f[1])
			r.tasks[u].cancel()
			if r.tasks[u].cancelStep < 0 {
				r.tasks[u].cancelStep = i
			}
		case "cancelparent":
			if r.poolDoneStep < 0 {
				r.poolDoneStep = i
			}
			r.pcancel()
			r.poolDone = true
		case "advance":
			d, _ := strconv.Atoi(f[1])
			time.Sleep(time.Duration(d) * unit)
		}
		r.observe(i)
		for _, t := range r.tasks {
			if t.returned && t.returnedStep < 0 {
				t.returnedStep = i
			}
		}
		// C17: TryDo never blocks — it must have returned by the next quiescent point
		if f[0] == "try" {
			if t := r.tasks[len(r.tasks)-1]; !t.returned && atomic.LoadInt32(&r.panics) == 0 {
				r.fail("C17 TryDo of task %d is blocked", t.id)
			}
		}
	}
	// epilogue (not part of the accepted trace): release everything, stop, and check the final accounting
	for _, t := range r.tasks {
		if !t.released {
			t.released = true
			close(t.gate)
		}
	}
	synctest.Wait()
	if !r.stopCalled {
		go func() {
			defer func() {
				if p := recover(); p != nil {
					atomic.AddInt32(&r.panics, 1)
				}
			}()
			r.pool.Stop()
			r.stopReturned = true
		}()
	}
	synctest.Wait()
	var fin []string
	for _, t := range r.tasks {
		kind := "none"
		if t.next != nil {
			// this attempt was turned away by TryDo (saturated) and its task object was handed over again: the object's result belongs to the
			// later attempt; this one must not have been executed
			if t.consumed != nil {
				// finished, its result read by the client, then handed over again: the first acceptance ran once and got the executor's value
				want := map[bool]error{true: t.execErr, false: nil}[t.id%4 == 3]
				if t.consumed.Result != t.id || t.consumed.Err != want || atomic.LoadInt32(&t.execs) != 1 {
					r.fail("C04 task %d (before its object was submitted again): result %v / %v, executions %d; its executor returned %d / %v once", t.id, t.consumed.Result, t.consumed.Err, atomic.LoadInt32(&t.execs), t.id, want)
				}
				kind = "val"
			} else if atomic.LoadInt32(&t.execs) != 0 {
				r.fail("C04 task %d was refused by TryDo (false, no error result) but was executed", t.id)
			}
			fin = append(fin, fmt.Sprintf("%d:%s", t.id, kind))
			continue
		}
		if t.task == nil {
			r.fail("C12 submission of task %d still blocked after Stop", t.id)
			continue
		}
		select {
		case res := <-t.task.Result():
			if res.Err != nil && res.Err != t.execErr {
				kind = "err"
				if res.Err == errParentCause || res.Err == errTaskCause {
					r.fail("C04 task %d: the result of a refused task carries the cancellation cause %q instead of the done context's error (ctx.Err() = %q)", t.id, res.Err.Error(), context.Canceled.Error())
				}
				// the result of a refused task carries the error of the context that was done: its own or the pool's
				if t.own != nil && t.resStep >= 0 { // (a result delivered only by the epilogue's Stop is not judged)
					poolDone := r.poolDoneStep >= 0 && r.poolDoneStep <= t.resStep
					ownDone := t.cancelStep >= 0 && t.cancelStep <= t.resStep
					if _, isOwn := res.Err.(*ownCtxErr); ownDone && !poolDone && !isOwn {
						r.fail("C04 task %d was refused because its own context was done (the pool's was not) but its result carries %q instead of that context's error", t.id, res.Err.Error())
					} else if isOwn && !ownDone {
						r.fail("C04 task %d received its own context's error although that context was not done when it was refused", t.id)
					}
				}
				if atomic.LoadInt32(&t.execs) != 0 {
					r.fail("C04 task %d received a context-error result but was executed", t.id)
				}
				ctxDoneBy := func(step int) bool {
					return (r.poolDoneStep >= 0 && r.poolDoneStep <= step) || (t.cancelStep >= 0 && t.cancelStep <= step)
				}
				// the pool was running when the pool context was cancelled (or is still running): every task accepted before must run
				started := r.startStep >= 0 && (r.poolDoneStep < 0 || r.startStep < r.poolDoneStep)
				if started && t.accepted && t.returnedStep >= 0 && !ctxDoneBy(t.returnedStep) {
					r.fail("C04 task %d was accepted (its %s returned at step %d, before any context was cancelled) but was never executed and received a context error", t.id, t.kind, t.returnedStep)
					r.fail("C08 task %d was accepted before Stop was called but Stop returned without it having been executed (it got a context error instead)", t.id)
				}
			} else {
				kind = "val"
				if res.Result != t.id {
					r.fail("C04 task %d received result %v, its executor returned %d", t.id, res.Result, t.id)
				}
				if atomic.LoadInt32(&t.execs) == 0 {
					r.fail("C17 task %d was never executed (refused / released by a cancelled context) but its result carries no context error: %+v", t.id, *res)
				}
				if atomic.LoadInt32(&t.execs) != 1 {
					r.fail("C04 task %d has a value result but %d executions", t.id, atomic.LoadInt32(&t.execs))
				}
				if t.ctxKind != "pool" && t.sawCtx != t.ctx {
					r.fail("C04 task %d was executed with a context different from the one it was given", t.id)
				}
				if t.ctxKind == "pool" && t.sawCtx == nil {
					r.fail("C04 task %d without context was executed with a nil context instead of the pool's", t.id)
				} else if t.ctxKind == "pool" {
					// the pool's context: derived from the parent given to NewPool and done once Stop has been called
					if !r.sc.nilParent && t.sawCtx.Value(parentKey{}) != "parent-of-this-pool" {
						r.fail("C04 task %d was given no context but its executor did not run with the pool's context (it does not derive from the pool's parent)", t.id)
					}
					if t.sawCtx.Err() == nil {
						r.fail("C04 task %d was given no context but its executor did not run with the pool's context (it is not done after Stop)", t.id)
					}
				}
				if want := map[bool]error{true: t.execErr, false: nil}[t.id%4 == 3]; res.Err != want {
					r.fail("C04 task %d: result carries error %v, its executor returned %v", t.id, res.Err, want)
				}
			}
		default:
		}
		// a second result would have blocked a worker for ever; detect a second buffered value after draining one
		synctest.Wait()
		if t.nres() != 0 {
			r.fail("C04 task %d received more than one result", t.id)
		}
		if t.accepted && kind == "none" {
			r.fail("C12 accepted task %d never received a result (executions %d)", t.id, atomic.LoadInt32(&t.execs))
			// accepted by a pool that was running, with no context done when the submission returned: it had to be executed
			started := r.startStep >= 0 && (r.poolDoneStep < 0 || r.startStep < r.poolDoneStep)
			ctxDone := t.returnedStep < 0 || (r.poolDoneStep >= 0 && r.poolDoneStep <= t.returnedStep) || (t.cancelStep >= 0 && t.cancelStep <= t.returnedStep)
			if started && !ctxDone && atomic.LoadInt32(&t.execs) == 0 {
				r.fail("C04 task %d was accepted by a running pool (its %s returned at step %d, no context was done) but was never executed and never received a result", t.id, t.kind, t.returnedStep)
			}
		}
		if !t.returned {
			r.fail("C12 submission of task %d still blocked after Stop", t.id)
		}
		fin = append(fin, fmt.Sprintf("%d:%s", t.id, kind))
	}
	if !r.stopReturned {
		r.fail("C08 Stop did not return although every executor has finished")
	}
	if w := countWorkers(); w != 0 {
		r.fail("C08 %d pool goroutine(s) alive after Stop returned", w)
	}
	if p := atomic.LoadInt32(&r.panics); p > 0 {
		r.fail("C12 %d call(s) panicked", p)
	}
	fmt.Fprintf(r.tr, "end\n")
	_ = fin
}

func genScenario(rng *rand.Rand) scenario {
	sc := scenario{nworker: 1 + rng.Intn(2), limit: rng.Intn(3), lifetime: 50, autostart: rng.Intn(5) != 0}
	if sc.autostart {
		sc.actions = append(sc.actions, "start")
		sc.ctorStart = rng.Intn(2) == 0
	}
	if sc.limit > 0 && rng.Intn(6) == 0 {
		sc.zeroLifetime, sc.lifetime = true, int(time.Minute/unit)
	}
	L := sc.lifetime
	ntask := 0
	running := map[int]bool{} // submitted and not yet released (may or may not be running)
	own := map[int]bool{}
	n := 3 + rng.Intn(10)
	stopped, started := false, sc.autostart
	cancelsParent := false
	nbursts := 0
	for i := 0; i < n; i++ {
		switch r := rng.Intn(100); {
		case r < 38:
			kind := []string{"do", "do", "try"}[rng.Intn(3)]
			ck := []string{"pool", "pool", "own", "never", "pool", "own", "never", "ownc"}[rng.Intn(8)]
			sc.actions = append(sc.actions, kind+" "+ck)
			running[ntask] = true
			if ck == "own" {
				own[ntask] = true
			}
			ntask++
			if kind == "try" && rng.Intn(2) == 0 {
				// the usual fallback after a TryDo: the same task object is submitted again (only if that TryDo returns false on a saturated pool)
				if rng.Intn(3) == 0 {
					sc.actions = append(sc.actions, fmt.Sprintf("advance %d", 1))
				}
				sc.actions = append(sc.actions, "retry "+[]string{"do", "do", "try"}[rng.Intn(3)])
				running[ntask] = true
				ntask++
			}
		case r < 47 && sc.limit > 0 && nbursts < 2: // (at most two bursts: every blocked submitter multiplies the acceptor's state sets)
			nbursts++
			k := 2 + rng.Intn(2)
			sc.actions = append(sc.actions, fmt.Sprintf("burst %d %s", k, []string{"pool", "never"}[rng.Intn(2)]))
			for j := 0; j < k; j++ {
				running[ntask] = true
				ntask++
			}
		case r < 60:
			for u := range running {
				sc.actions = append(sc.actions, fmt.Sprintf("finish %d", u))
				delete(running, u)
				if rng.Intn(3) == 0 {
					// a finished task whose result has been read is submitted again (same object): accepted, executed and answered once more
					sc.actions = append(sc.actions, "retry "+[]string{"do", "do", "try"}[rng.Intn(3)])
					running[ntask] = true
					ntask++
				}
				break
			}
		case r < 68:
			for u := range own {
				sc.actions = append(sc.actions, fmt.Sprintf("canceltask %d", u))
				delete(own, u)
				break
			}
		case r < 72:
			sc.actions = append(sc.actions, "cancelparent")
			cancelsParent = true
		case r < 82:
			sc.actions = append(sc.actions, fmt.Sprintf("advance %d", []int{1, L - 1, L, L + 1, 2 * L}[rng.Intn(5)]))
		case r < 90:
			if !stopped || rng.Intn(3) == 0 {
				sc.actions = append(sc.actions, "stop") // a repeated Stop must have no effect
				stopped = true
			}
		default:
			if !started || rng.Intn(4) == 0 {
				sc.actions = append(sc.actions, "start")
				started = true
			}
		}
	}
	sc.nilParent = !cancelsParent && rng.Intn(3) == 0
	return sc
}

func TestScenarios(t *testing.T) {
	seed, _ := strconv.ParseInt(os.Getenv("POOL_SEED"), 10, 64)
	first, _ := strconv.Atoi(os.Getenv("POOL_FIRST"))
	runs, _ := strconv.Atoi(os.Getenv("POOL_RUNS"))
	only := os.Getenv("POOL_ONLY")
	trf, err := os.Create(os.Getenv("POOL_TRACE"))
	if err != nil {
		t.Fatal(err)
	}
	tr := bufio.NewWriterSize(trf, 1<<20)
	monf, err := os.Create(os.Getenv("POOL_MON"))
	if err != nil {
		t.Fatal(err)
	}
	mon := bufio.NewWriter(monf)
	defer func() { tr.Flush(); trf.Close(); mon.Flush(); monf.Close() }()
	lo, hi := first, first+runs
	if only != "" {
		lo, _ = strconv.Atoi(only)
		hi = lo + 1
	}
	for run := lo; run < hi; run++ {
		rng := rand.New(rand.NewSource(seed*1000003 + int64(run)))
		sc := genScenario(rng)
		fmt.Fprintf(mon, "RUN %d nworker=%d limit=%d lifetime=%d ctorStart=%v nilParent=%v zeroLifetime=%v actions=%s\n", run, sc.nworker, sc.limit, sc.lifetime, sc.ctorStart, sc.nilParent, sc.zeroLifetime, strings.Join(sc.actions, ";"))
		mon.Flush() // a crash of the binary (panic in a worker goroutine) leaves the scenario as replay
		r := &runState{t: t, tr: tr, sc: sc}
		synctest.Test(t, func(t *testing.T) { r.runScenario() })
		if len(r.msgs) > 0 {
			for _, m := range r.msgs {
				fmt.Fprintf(mon, "MON %d FAIL %s\n", run, m)
			}
		} else {
			fmt.Fprintf(mon, "MON %d ok actions=%d tasks=%d maxrunning=%d\n", run, len(sc.actions), len(r.tasks), r.maxRunning)
		}
	}
}

// TestStress: free-running submit-versus-Stop races on the real scheduler (no bubble): monitors only.
// Every round: many submitters hammer Do / TryDo / Execute* in tight loops on a fresh pool (fixed or expandable, sometimes with a
// deferred or concurrent Start) while Stop is called after a tiny random delay. Budget: POOL_RUNS milliseconds.
func TestStress(t *testing.T) {
	seed, _ := strconv.ParseInt(os.Getenv("POOL_SEED"), 10, 64)
	budgetMs, _ := strconv.Atoi(os.Getenv("POOL_RUNS"))
	monf, err := os.Create(os.Getenv("POOL_MON"))
	if err != nil {
		t.Fatal(err)
	}
	mon := bufio.NewWriter(monf)
	defer func() { mon.Flush(); monf.Close() }()
	rng := rand.New(rand.NewSource(seed))
	deadline := time.Now().Add(time.Duration(budgetMs) * time.Millisecond)
	type sub struct {
		task     *workerpool.Task
		accepted bool
		execs    int32
		mode     int
	}
	// POOL_CHAOS (per mille): the binary was built against the copy of worker-pool whose atomics / locks / wait group go through the
	// shims; every such operation is then surrounded by random bounded delays (vsched.Chaos)
	chaos, _ := strconv.Atoi(os.Getenv("POOL_CHAOS"))
	atomic.StoreInt32(&vsched.ChaosPerMille, int32(chaos))
	defer atomic.StoreInt32(&vsched.ChaosPerMille, 0)
	for round := 0; time.Now().Before(deadline); round++ {
		if chaos > 0 && round%4 == 1 {
			startStopRound(mon, rng, round, chaos)
			continue
		}
		if round%3 == 2 {
			crowdRound(mon, rng, round)
			continue
		}
		if round%16 == 7 {
			edgeRound(mon, rng, round)
			continue
		}
		if round%16 == 11 {
			bigPoolRound(mon, rng, round)
			continue
		}
		if round%16 == 13 {
			stopWindowRound(mon, rng, round)
			continue
		}
		if round == 4 && seed%100 < 2 { // (two shards of the stress, one variant each: it is the expensive round)
			floodRound(mon, rng, round, int(seed%100))
			continue
		}
		opt := workerpool.Option{NumberWorker: 1 + rng.Intn(3), ExpandableLimit: int32(rng.Intn(3)), ExpandedLifetime: time.Millisecond, DisableAutoStart: rng.Intn(4) == 0}
		concurrentStart := opt.DisableAutoStart && rng.Intn(2) == 0
		delay := time.Duration(rng.Intn(3000)) * time.Microsecond
		stops := 1 + rng.Intn(3)/2 // a third of the rounds: two Stop calls at once (the loser of the state transition returns early)
		fmt.Fprintf(mon, "RUN %d round=%d opt=%+v concurrentStart=%v stopAfter=%v stops=%d chaos=%d\n", round, round, opt, concurrentStart, delay, stops, chaos)
		mon.Flush()
		roundStart := time.Now()
		p := workerpool.NewPool(context.Background(), opt)
		var stop int32
		var panics, submitted int32
		var runningNow, maxRunning int32
		var mu sync.Mutex
		var subs []*sub
		var wg sync.WaitGroup
		cancelled, cancel := context.WithCancel(context.Background())
		cancel()
		nsub := 2 * runtime.GOMAXPROCS(0)
		for i := 0; i < nsub; i++ {
			wg.Add(1)
			mode := i % 6
			lr := rand.New(rand.NewSource(seed*1000003 + int64(round)*257 + int64(i)))
			go func() {
				defer wg.Done()
				var mine []*sub
				for atomic.LoadInt32(&stop) == 0 && len(mine) < 4000 {
					s := &sub{mode: mode}
					exec := func(context.Context) (interface{}, error) {
						atomic.AddInt32(&s.execs, 1)
						n := atomic.AddInt32(&runningNow, 1)
						for {
							m := atomic.LoadInt32(&maxRunning)
							if n <= m || atomic.CompareAndSwapInt32(&maxRunning, m, n) {
								break
							}
						}
						runtime.Gosched()
						atomic.AddInt32(&runningNow, -1)
						return 1, nil
					}
					func() {
						defer func() {
							if r := recover(); r != nil {
								atomic.AddInt32(&panics, 1)
							}
						}()
						switch mode {
						case 0:
							s.task = workerpool.NewTask(nil, exec)
							p.Do(s.task)
							s.accepted = true
						case 1:
							s.task = workerpool.NewTask(nil, exec)
							s.accepted = p.TryDo(s.task)
						case 2:
							s.task = p.ExecuteWithCtx(cancelled, exec) // already-cancelled task context: refused or executed, never stranded
							s.accepted = true
						case 4:
							// a context of the task's own, cancelled around the time Stop is called: a submitter parked in Do is released by
							// whichever context is done first; whatever it is released with, a result without an error means "executed once"
							ctx, cancelOwn := context.WithCancel(context.Background())
							time.AfterFunc(time.Until(roundStart.Add(delay))+time.Duration(lr.Intn(500)-200)*time.Microsecond, cancelOwn)
							s.task = workerpool.NewTask(ctx, exec)
							p.Do(s.task)
							s.accepted = true
						case 5:
							// a context with a deadline, submitted at the deadline instant (the context's timer fires a little later)
							d := time.Now().Add(time.Duration(30+lr.Intn(300)) * time.Microsecond)
							ctx, cancelOwn := context.WithDeadline(context.Background(), d)
							_ = cancelOwn
							for time.Now().Before(d) {
							}
							s.task = workerpool.NewTask(ctx, exec)
							p.Do(s.task)
							s.accepted = true
						default:
							s.task, s.accepted = p.TryExecute(exec)
						}
					}()
					atomic.AddInt32(&submitted, 1)
					if s.task != nil {
						mine = append(mine, s)
					}
				}
				mu.Lock()
				subs = append(subs, mine...)
				mu.Unlock()
			}()
		}
		time.Sleep(delay)
		if concurrentStart {
			go p.Start()
		}
		stopDone := make(chan struct{})
		var sw sync.WaitGroup
		for k := 0; k < stops; k++ {
			sw.Add(1)
			go func() { defer sw.Done(); p.Stop() }()
		}
		go func() { sw.Wait(); close(stopDone) }() // every Stop call has returned, in particular the one that performed the shutdown
		msg := ""
		select {
		case <-stopDone:
		case <-time.After(10 * time.Second):
			msg = "C08 Stop did not return within 10s"
		}
		atomic.StoreInt32(&stop, 1)
		wdone := make(chan struct{})
		go func() { wg.Wait(); close(wdone) }()
		select {
		case <-wdone:
		case <-time.After(10 * time.Second):
			msg = "C12 a submission is still blocked 10s after Stop returned"
		}
		if msg == "" {
			for _, s := range subs {
				if !s.accepted {
					continue
				}
				select {
				case res := <-s.task.Result():
					if res.Err != nil && atomic.LoadInt32(&s.execs) != 0 {
						msg = "C04 task with a context-error result was executed"
					}
					if res.Err == nil && atomic.LoadInt32(&s.execs) != 1 {
						how := []string{"Do", "TryDo", "ExecuteWithCtx with a cancelled context", "TryExecute", "Do with a context of its own that is cancelled around Stop", "Do with a deadline context at the deadline instant"}[s.mode]
						tags := "C04,C12"
						if s.mode != 1 && s.mode != 3 {
							tags += ",C17" // a blocking submission: released with a result that carries neither a context error nor an execution
						}
						msg = fmt.Sprintf("%s task with the result %+v (no error) was executed %d times; submitted through %s", tags, *res, s.execs, how)
					}
				default:
					msg = "C12 accepted task has no result after Stop returned and all submitters finished (stranded)"
				}
			}
		}
		if n := atomic.LoadInt32(&panics); n > 0 {
			msg = fmt.Sprintf("C12 %d submission(s) panicked while racing with Stop", n)
		}
		if m := int(atomic.LoadInt32(&maxRunning)); m > opt.NumberWorker+int(opt.ExpandableLimit) {
			msg = fmt.Sprintf("C11 %d tasks executed simultaneously, cap is NumberWorker %d + ExpandableLimit %d", m, opt.NumberWorker, opt.ExpandableLimit)
		}
		if msg == "" {
			// Stop has returned: the pool must be stopped (a task submitted now is refused with the context error, never executed)
			var ran int32
			probe := workerpool.NewTask(nil, func(context.Context) (interface{}, error) { atomic.AddInt32(&ran, 1); return 1, nil })
			func() {
				defer func() { recover() }()
				p.Do(probe)
			}()
			select {
			case res := <-probe.Result():
				if res.Err == nil || atomic.LoadInt32(&ran) != 0 {
					msg = "C08 Stop has returned but the pool still accepts and executes tasks (Stop had no effect)"
				}
			case <-time.After(2 * time.Second):
				msg = "C12 a task submitted after Stop returned never received a result"
			}
			p.Stop()
		}
		if msg != "" {
			fmt.Fprintf(mon, "MON %d FAIL %s\n", round, msg)
		} else {
			fmt.Fprintf(mon, "MON %d ok subs=%d\n", round, atomic.LoadInt32(&submitted))
		}
	}
}

// lateWorkers: pool goroutines that are demonstrably not done - parked on the queue, in a select, executing a task, or inside a chaos
// delay (which sits BEFORE the real operation: a worker delayed in front of wg.Done has not been counted down yet). A worker between its
// wg.Done and the return of its function is not reported: Stop may legitimately have returned by then.
func lateWorkers() (n int, sample string) {
	buf := make([]byte, 1<<20)
	k := runtime.Stack(buf, true)
	for _, g := range strings.Split(string(buf[:k]), "\n\n") {
		if !strings.Contains(g, ".(*Pool).worker(") && !strings.Contains(g, ".(*Pool).expandedWorker(") {
			continue
		}
		head := g
		if i := strings.Index(g, "\n"); i > 0 {
			head = g[:i]
		}
		if strings.Contains(g, "vsched.Chaos") || strings.Contains(g, ".(*Task).Execute(") || strings.Contains(head, "chan receive") || strings.Contains(head, "select") {
			n++
			sample = head
		}
	}
	return
}

// startStopRound (chaos builds only): many tiny pools with a deferred Start racing Stop (and sometimes a queued task and a second Stop).
// Whatever the order, once every Stop call has returned no pool goroutine may be registered or started any more (C08), and a task that
// was queued has exactly one result: a value if it was executed once, otherwise an error (C04/C12).
func startStopRound(mon *bufio.Writer, rng *rand.Rand, round int, chaos int) {
	nw := 2 + rng.Intn(7)
	fmt.Fprintf(mon, "RUN %d round=%d start/stop race: DisableAutoStart pools with %d workers, Start || Stop (|| Stop), chaos=%d\n", round, round, nw, chaos)
	mon.Flush()
	old := atomic.SwapInt32(&vsched.ChaosPerMille, 300)
	defer atomic.StoreInt32(&vsched.ChaosPerMille, old)
	msg := ""
	iters := 0
	for until := time.Now().Add(150 * time.Millisecond); time.Now().Before(until) && msg == ""; iters++ {
		p := workerpool.NewPool(context.Background(), workerpool.Option{NumberWorker: nw, ExpandableLimit: 0, ExpandedLifetime: time.Minute, DisableAutoStart: true})
		var execs int32
		var task *workerpool.Task
		if rng.Intn(2) == 0 {
			task = p.Execute(func(context.Context) (interface{}, error) { atomic.AddInt32(&execs, 1); return 1, nil }) // fills the queue slot
		}
		stops := 1 + rng.Intn(2)
		var sw, st sync.WaitGroup
		st.Add(1)
		go func() { defer st.Done(); p.Start() }()
		for k := 0; k < stops; k++ {
			sw.Add(1)
			go func() { defer sw.Done(); p.Stop() }()
		}
		sw.Wait()
		for k := 0; k < 6 && msg == ""; k++ {
			if n, g := lateWorkers(); n > 0 {
				msg = fmt.Sprintf("C08 every Stop call has returned and %d pool goroutine(s) are still at work (%s); pool of %d workers, deferred Start racing %d Stop call(s)", n, g, nw, stops)
			}
			time.Sleep(40 * time.Microsecond)
		}
		st.Wait()
		if task != nil && msg == "" {
			select {
			case res := <-task.Result():
				if res.Err == nil && atomic.LoadInt32(&execs) != 1 {
					msg = fmt.Sprintf("C04,C12 the task queued before Start || Stop received the result %+v but was executed %d times (%d Stop calls)", *res, execs, stops)
				}
				if res.Err != nil && atomic.LoadInt32(&execs) != 0 {
					msg = "C04 the task queued before Start || Stop was executed and received an error result"
				}
			case <-time.After(5 * time.Second):
				msg = "C12 the task queued before Start || Stop never received a result"
			}
		}
	}
	if msg != "" {
		fmt.Fprintf(mon, "MON %d FAIL %s\n", round, msg)
	} else {
		fmt.Fprintf(mon, "MON %d ok subs=%d\n", round, iters)
	}
}

// crowdRound targets the parallelism cap (C11): every worker the pool may have before the crowd arrives is parked on a
// task that blocks until the end of the round and the one-slot queue is full; then a crowd of submitters is released at
// the same instant. All tasks block until the round is over, so the number of tasks that have started is the number
// executing simultaneously; it must never exceed NumberWorker + ExpandableLimit.
func crowdRound(mon *bufio.Writer, rng *rand.Rand, round int) {
	nw, limit := 1+rng.Intn(2), 1+rng.Intn(2)
	pre := rng.Intn(limit) // expanded workers created sequentially before the crowd
	opt := workerpool.Option{NumberWorker: nw, ExpandableLimit: int32(limit), ExpandedLifetime: time.Minute}
	if rng.Intn(5) == 0 {
		// documented normalisation of the options: NumberWorker <= 0 means runtime.NumCPU(), a negative ExpandableLimit means 0
		opt.NumberWorker = -rng.Intn(2)
		nw = runtime.NumCPU()
		if rng.Intn(2) == 0 {
			opt.ExpandableLimit = -1 - int32(rng.Intn(3))
			limit, pre = 0, 0
		}
	}
	fmt.Fprintf(mon, "RUN %d round=%d crowd opt=%+v preExpanded=%d\n", round, round, opt, pre)
	mon.Flush()
	p := workerpool.NewPool(context.Background(), opt)
	var running, peak int32
	release := make(chan struct{})
	exec := func(context.Context) (interface{}, error) {
		n := atomic.AddInt32(&running, 1)
		for {
			m := atomic.LoadInt32(&peak)
			if n <= m || atomic.CompareAndSwapInt32(&peak, m, n) {
				break
			}
		}
		<-release
		atomic.AddInt32(&running, -1)
		return nil, nil
	}
	waitRunning := func(n int) bool {
		for i := 0; i < 200000; i++ {
			if int(atomic.LoadInt32(&running)) >= n {
				return true
			}
			time.Sleep(5 * time.Microsecond)
		}
		return false
	}
	msg := ""
	var mmu sync.Mutex
	setMsg := func(m string) {
		mmu.Lock()
		if msg == "" {
			msg = m
		}
		mmu.Unlock()
	}
	prefill := make(chan struct{})
	go func() {
		defer close(prefill)
		for i := 0; i < nw; i++ {
			p.Execute(exec)
		}
		if !waitRunning(nw) {
			setMsg(fmt.Sprintf("C11 a pool with option NumberWorker=%d (normalised: %d) did not run %d tasks at once", opt.NumberWorker, nw, nw))
		}
		p.Execute(exec) // fills the queue slot
		for i := 0; i < pre; i++ {
			p.Execute(exec)
			if !waitRunning(nw + i + 1) {
				setMsg("C11 a saturated pool below its expansion limit did not expand")
			}
		}
	}()
	select {
	case <-prefill:
	case <-time.After(5 * time.Second):
		// fewer workers than the options promise: the sequential submissions above are blocked
		setMsg(fmt.Sprintf("C11 a pool with options NumberWorker=%d ExpandableLimit=%d runs only %d tasks at once, fewer than its %d fixed workers", opt.NumberWorker, opt.ExpandableLimit, atomic.LoadInt32(&running), nw))
		close(release)
		<-prefill
		p.Stop()
		fmt.Fprintf(mon, "MON %d FAIL %s\n", round, msg)
		return
	}
	crowd := runtime.GOMAXPROCS(0) - 2
	if crowd < 2 {
		crowd = 8
	}
	if crowd < limit-pre+4 {
		crowd = limit - pre + 4
	}
	var start uint32
	var ready, done sync.WaitGroup
	ready.Add(crowd)
	done.Add(crowd)
	for i := 0; i < crowd; i++ {
		go func() {
			defer done.Done()
			ready.Done()
			for atomic.LoadUint32(&start) == 0 {
			}
			p.Execute(exec)
		}()
	}
	ready.Wait()
	atomic.StoreUint32(&start, 1)
	waitRunning(nw + limit)
	time.Sleep(300 * time.Microsecond)
	pk := int(atomic.LoadInt32(&peak))
	close(release)
	done.Wait()
	p.Stop()
	if pk > nw+limit {
		msg = fmt.Sprintf("C11 %d tasks executed simultaneously after %d submitters arrived at once, cap is NumberWorker %d + ExpandableLimit %d", pk, crowd, nw, limit)
	} else if pk < nw+limit && msg == "" {
		msg = fmt.Sprintf("C11 saturated pool with %d blocked submitters ran only %d tasks at once, below NumberWorker %d + ExpandableLimit %d", crowd, pk, nw, limit)
	}
	if msg != "" {
		fmt.Fprintf(mon, "MON %d FAIL %s\n", round, msg)
	} else {
		fmt.Fprintf(mon, "MON %d ok subs=%d\n", round, crowd+nw+1+pre)
	}
}

// edgeRound: unusual arguments of the submission API (monitors only): a nil task is ignored (TryDo(nil) reports false), a task
// without an executor is "executed" as a no-op and receives exactly one empty result, a nil executor given to Execute* likewise;
// none of them panics or blocks, before or after Stop.
func edgeRound(mon *bufio.Writer, rng *rand.Rand, round int) {
	opt := workerpool.Option{NumberWorker: 1 + rng.Intn(2), ExpandableLimit: int32(rng.Intn(2)), ExpandedLifetime: time.Millisecond}
	fmt.Fprintf(mon, "RUN %d round=%d edge opt=%+v\n", round, round, opt)
	mon.Flush()
	msg := ""
	call := func(what string, f func()) {
		done := make(chan interface{}, 1)
		go func() {
			defer func() { done <- recover() }()
			f()
		}()
		select {
		case p := <-done:
			if p != nil && msg == "" {
				msg = fmt.Sprintf("C12 %s panicked: %v", what, p)
			}
		case <-time.After(5 * time.Second):
			if msg == "" {
				msg = fmt.Sprintf("C17 %s did not return within 5s", what)
			}
		}
	}
	one := func(what string, t *workerpool.Task, wantErr bool) {
		if t == nil {
			if msg == "" {
				msg = fmt.Sprintf("C04 %s returned no task", what)
			}
			return
		}
		select {
		case res := <-t.Result():
			if (res.Err != nil) != wantErr || res.Result != nil {
				if msg == "" {
					msg = fmt.Sprintf("C04 %s: result %+v (context error expected: %v)", what, *res, wantErr)
				}
			}
		case <-time.After(5 * time.Second):
			if msg == "" {
				msg = fmt.Sprintf("C12 %s: the task never received a result", what)
			}
		}
		select {
		case res := <-t.Result():
			if msg == "" {
				msg = fmt.Sprintf("C04 %s: a second result arrived: %+v", what, *res)
			}
		default:
		}
	}
	p := workerpool.NewPool(context.Background(), opt)
	for phase := 0; phase < 2; phase++ {
		stopped := phase == 1
		tag := map[bool]string{false: "running pool", true: "stopped pool"}[stopped]
		call("Do(nil) on a "+tag, func() { p.Do(nil) })
		call("TryDo(nil) on a "+tag, func() {
			if p.TryDo(nil) && msg == "" {
				msg = "C17 TryDo(nil) reported that a task was handed over"
			}
		})
		var t1, t2, t3 *workerpool.Task
		call("Do of a task without executor on a "+tag, func() { t1 = workerpool.NewTask(nil, nil); p.Do(t1) })
		one("Do of a task without executor on a "+tag, t1, stopped)
		call("Execute(nil) on a "+tag, func() { t2 = p.Execute(nil) })
		one("Execute(nil) on a "+tag, t2, stopped)
		var ok bool
		call("TryExecute(nil) on a "+tag, func() { t3, ok = p.TryExecute(nil) })
		if ok || stopped {
			one("TryExecute(nil) on a "+tag, t3, stopped)
		}
		if !stopped {
			call("Stop", func() { p.Stop() })
		}
	}
	if msg != "" {
		fmt.Fprintf(mon, "MON %d FAIL %s\n", round, msg)
	} else {
		fmt.Fprintf(mon, "MON %d ok subs=%d\n", round, 10)
	}
}

// bigPoolRound (scale): a pool with many fixed workers (65..200), all of them parked on a task: the hand-over buffer still holds exactly
// one waiting task (TryExecute: true once, then false), whatever the number of workers (C17), and exactly NumberWorker tasks run (C11).
func bigPoolRound(mon *bufio.Writer, rng *rand.Rand, round int) {
	nw := []int{65, 66, 100, 129, 200}[rng.Intn(5)]
	opt := workerpool.Option{NumberWorker: nw, ExpandableLimit: 0, ExpandedLifetime: time.Minute}
	fmt.Fprintf(mon, "RUN %d round=%d big pool opt=%+v\n", round, round, opt)
	mon.Flush()
	p := workerpool.NewPool(context.Background(), opt)
	var running int32
	release := make(chan struct{})
	exec := func(context.Context) (interface{}, error) {
		atomic.AddInt32(&running, 1)
		<-release
		return nil, nil
	}
	msg := ""
	for i := 0; i < nw; i++ {
		if _, ok := p.TryExecute(exec); !ok {
			// a worker has not picked the previous task up yet: wait for the slot
			for k := 0; k < 100000 && !ok; k++ {
				time.Sleep(10 * time.Microsecond)
				_, ok = p.TryExecute(exec)
			}
			if !ok {
				msg = fmt.Sprintf("C11 a pool with %d fixed workers accepted only %d tasks although nothing was running to completion", nw, i)
				break
			}
		}
	}
	for k := 0; k < 200000 && int(atomic.LoadInt32(&running)) < nw && msg == ""; k++ {
		time.Sleep(10 * time.Microsecond)
	}
	if n := int(atomic.LoadInt32(&running)); n != nw && msg == "" {
		msg = fmt.Sprintf("C11 %d tasks run on a saturated pool of %d fixed workers", n, nw)
	}
	if msg == "" {
		got := ""
		for i := 0; i < 5; i++ {
			_, ok := p.TryExecute(exec)
			got += map[bool]string{true: "T", false: "F"}[ok]
		}
		if got != "TFFFF" {
			msg = fmt.Sprintf("C17 all %d workers busy: five TryExecute calls returned %s, expected TFFFF (one waiting task is buffered, not more)", nw, got)
		}
	}
	close(release)
	p.Stop()
	if msg != "" {
		fmt.Fprintf(mon, "MON %d FAIL %s\n", round, msg)
	} else {
		fmt.Fprintf(mon, "MON %d ok subs=%d\n", round, nw+5)
	}
}

// stopWindowRound: Stop is kept waiting for the submit lock - a deferred Start of a large pool holds the read side while it spawns
// its workers - and the pool's context is done before the first submission (the parent context was cancelled, which cancels the
// derived pool context before cancel returns). From then on a TryExecute can only be refused, and a refusal is told from saturation by
// the result it delivers: every call that returns false must have put one result carrying the context's error on the task's
// channel before it returned (C04), whether it found the lock free, taken by Start or awaited by Stop; a call that returns true
// handed the task over, and Stop releases it (executed or context error; C08/C12).
func stopWindowRound(mon *bufio.Writer, rng *rand.Rand, round int) {
	nw := 20000 + rng.Intn(30000)
	opt := workerpool.Option{NumberWorker: nw, ExpandableLimit: 0, ExpandedLifetime: time.Minute, DisableAutoStart: true}
	fmt.Fprintf(mon, "RUN %d round=%d stop window opt=%+v\n", round, round, opt)
	mon.Flush()
	parent, cancelParent := context.WithCancel(context.Background())
	p := workerpool.NewPool(parent, opt)
	var mu sync.Mutex
	msg := ""
	fail := func(format string, a ...interface{}) {
		mu.Lock()
		if msg == "" {
			msg = fmt.Sprintf(format, a...)
		}
		mu.Unlock()
	}
	startGo := make(chan struct{})
	startDone := make(chan struct{})
	go func() { close(startGo); p.Start(); close(startDone) }()
	<-startGo
	if rng.Intn(2) == 0 {
		runtime.Gosched()
	}
	cancelParent()
	stopDone := make(chan struct{})
	go func() { p.Stop(); close(stopDone) }()
	var wg sync.WaitGroup
	var calls, refused, accepted int64
	exec := func(context.Context) (interface{}, error) { return nil, nil }
	for g := 0; g < 4; g++ {
		wg.Add(1)
		go func() {
			defer wg.Done()
			var held []*workerpool.Task
			extra := 3
			giveUp := time.Now().Add(40 * time.Second)
			for extra > 0 && time.Now().Before(giveUp) {
				select {
				case <-stopDone:
					extra-- // a few more calls on the stopped pool
				default:
				}
				t, ok := p.TryExecute(exec)
				atomic.AddInt64(&calls, 1)
				if ok {
					atomic.AddInt64(&accepted, 1)
					held = append(held, t)
					continue
				}
				atomic.AddInt64(&refused, 1)
				select {
				case res := <-t.Result():
					if res.Err != context.Canceled {
						fail("C04 TryExecute refused a task on a pool whose context is cancelled with the result %+v", *res)
					}
				default:
					fail("C04 TryExecute returned false on a pool whose context was done before the call and delivered no result (call %d of the round; Stop waiting for the lock a deferred Start of %d workers holds)", atomic.LoadInt64(&calls), nw)
					return
				}
			}
			for _, t := range held {
				select {
				case <-t.Result():
				case <-time.After(10 * time.Second):
					fail("C12 a task TryExecute handed over while the pool was being stopped never received a result")
					return
				}
			}
		}()
	}
	select {
	case <-stopDone:
	case <-time.After(30 * time.Second):
		fail("C08 Stop did not return within 30s (deferred Start of %d workers racing it)", nw)
	}
	wg.Wait()
	<-startDone
	if msg != "" {
		fmt.Fprintf(mon, "MON %d FAIL %s\n", round, msg)
	} else {
		fmt.Fprintf(mon, "MON %d ok subs=%d refused=%d accepted=%d\n", round, calls, refused, accepted)
	}
}

// floodRound (scale): a long history on one small pool - more than 2^16 tasks per worker (fixed and expanded) - and then the same
// observations as at the beginning of its life: the cap (C11), and Stop waiting for the tasks that are running (C08).
func floodRound(mon *bufio.Writer, rng *rand.Rand, round int, variant int) {
	opt := workerpool.Option{NumberWorker: 1, ExpandableLimit: 1, ExpandedLifetime: time.Minute}
	if variant == 1 {
		opt = workerpool.Option{NumberWorker: 2, ExpandableLimit: 0, ExpandedLifetime: time.Minute} // fixed workers only
	}
	per := 70000
	fmt.Fprintf(mon, "RUN %d round=%d flood opt=%+v tasks=%d\n", round, round, opt, 4*per)
	mon.Flush()
	p := workerpool.NewPool(context.Background(), opt)
	trivial := func(context.Context) (interface{}, error) { return nil, nil }
	var wg sync.WaitGroup
	for s := 0; s < 4; s++ {
		wg.Add(1)
		go func() {
			defer wg.Done()
			for i := 0; i < per; i++ {
				p.Do(workerpool.NewTask(context.Background(), trivial))
			}
		}()
	}
	wg.Wait()
	msg := ""
	var running, peak, finished int32
	release := make(chan struct{})
	exec := func(context.Context) (interface{}, error) {
		n := atomic.AddInt32(&running, 1)
		for {
			m := atomic.LoadInt32(&peak)
			if n <= m || atomic.CompareAndSwapInt32(&peak, m, n) {
				break
			}
		}
		<-release
		time.Sleep(20 * time.Millisecond)
		atomic.AddInt32(&running, -1)
		atomic.AddInt32(&finished, 1)
		return nil, nil
	}
	var tasks []*workerpool.Task
	var tmu sync.Mutex
	for i := 0; i < 6; i++ {
		go func() {
			t := p.Execute(exec)
			tmu.Lock()
			tasks = append(tasks, t)
			tmu.Unlock()
		}()
	}
	for k := 0; k < 100000 && atomic.LoadInt32(&running) < 2; k++ {
		time.Sleep(10 * time.Microsecond)
	}
	time.Sleep(2 * time.Millisecond)
	if pk := atomic.LoadInt32(&peak); pk > 2 {
		msg = fmt.Sprintf("C11 after %d tasks on a pool with NumberWorker %d + ExpandableLimit %d, %d tasks execute simultaneously", 4*per, opt.NumberWorker, opt.ExpandableLimit, pk)
	}
	close(release)
	time.Sleep(time.Millisecond) // tasks are inside their final 20ms now (or queued / blocked in Do)
	startedBefore := atomic.LoadInt32(&running)
	p.Stop()
	if r := atomic.LoadInt32(&running); r != 0 && msg == "" {
		msg = fmt.Sprintf("C08 after %d tasks: Stop returned while %d task(s) were still executing (%d were running when it was called)", 4*per, r, startedBefore)
	}
	if msg != "" {
		fmt.Fprintf(mon, "MON %d FAIL %s\n", round, msg)
	} else {
		fmt.Fprintf(mon, "MON %d ok subs=%d\n", round, 4*per+6)
	}
}
