package main

import (
	"context"
	"flag"
	"fmt"
	"math"
	"math/rand"
	"strings"
	"time"

	"garrshim/vsched"
	"github.com/valyala/fastrand"
	cbreaker "go.linecorp.com/garr/circuit-breaker"
)

// scripted ticker: every reading is a scheduling point (layer "k") and is logged `tick <tid> <value>`
type cticker struct {
	now   int64
	noise func() int64
	last  map[int]int64 // last reading per thread
	first map[int]int64 // first reading of the current operation per thread
	nread map[int]int
	ctor  []int64 // readings handed out before the controlled run (constructor)
	sets  int     // number of times the script changed `now` during the run
}

func (t *cticker) Tick() int64 {
	if vsched.LayerOn("k") {
		vsched.Point()
	}
	v := t.now
	if t.noise != nil {
		v += t.noise()
	}
	if vsched.Active() {
		tid := vsched.Tid()
		vsched.Logf("tick %d %d\n", tid, v)
		t.last[tid] = v
		if t.nread[tid] == 0 {
			t.first[tid] = v
		}
		t.nread[tid]++
	} else {
		t.ctor = append(t.ctor, v)
	}
	return v
}

type epoch struct {
	kind       string
	deadline   int64
	start, end int // logical clock; end == 0: still current
	by         int // thread that performed the transition into this epoch
}

type brun struct {
	cb     cbreaker.CircuitBreaker
	tk     *cticker
	h      history
	epochs []*epoch
	counts []cntRec // counts reported through EventCountUpdated (non-zero-state ones)
	cfg    bcfg
	msg    string
}

type cntRec struct {
	s, f  int64
	clock int
	tid   int
}

type bcfg struct {
	thr                           float64
	minReq                        int64
	trial, open, window, interval int64
}

type clistener struct{ r *brun }

func (l *clistener) OnStateChanged(cb cbreaker.CircuitBreaker, s cbreaker.CircuitState) error {
	k := map[cbreaker.CircuitState]string{cbreaker.CircuitStateClosed: "C", cbreaker.CircuitStateOpen: "O", cbreaker.CircuitStateHalfOpen: "H"}[s]
	if vsched.Active() {
		tid := vsched.Tid()
		vsched.Logf("cb %d S:%s\n", tid, k)
		clock++
		r := l.r
		r.epochs[len(r.epochs)-1].end = clock
		dl := int64(0)
		switch k {
		case "O":
			dl = r.tk.last[tid] + r.cfg.open
		case "H":
			dl = r.tk.last[tid] + r.cfg.trial
		}
		r.epochs = append(r.epochs, &epoch{kind: k, deadline: dl, start: clock, by: tid})
	}
	return nil
}
func (l *clistener) OnEventCountUpdated(cb cbreaker.CircuitBreaker, c *cbreaker.EventCount) error {
	if vsched.Active() {
		vsched.Logf("cb %d N:%d/%d\n", vsched.Tid(), c.Success(), c.Failure())
		clock++
		l.r.counts = append(l.r.counts, cntRec{c.Success(), c.Failure(), clock, vsched.Tid()})
	}
	return nil
}
func (l *clistener) OnRequestRejected(cb cbreaker.CircuitBreaker) error {
	if vsched.Active() {
		vsched.Logf("cb %d R\n", vsched.Tid())
	}
	return nil
}
func (l *clistener) Stop() {}

type bop struct {
	kind string // can succ fail | set (set the clock)
	now  int64
}

type bthread struct {
	ops   []bop
	phase int
}

func (t bthread) String() string {
	var s []string
	for _, o := range t.ops {
		if o.kind == "set" {
			s = append(s, fmt.Sprintf("set(%d)", o.now))
		} else {
			s = append(s, o.kind)
		}
	}
	return fmt.Sprintf("ph%d:%s", t.phase, strings.Join(s, ","))
}

func (r *brun) body(tid int, th bthread) func() {
	return func() {
		for _, op := range th.ops {
			vsched.Point()
			r.tk.nread[tid] = 0
			switch op.kind {
			case "set":
				r.tk.now = op.now
				r.tk.sets++
			case "can":
				o := r.h.begin(tid, "can", -1)
				nep := len(r.epochs)
				setsBefore, nowBefore := r.tk.sets, r.tk.now
				var b bool
				if (tid+nep+len(r.h.ops))%3 == 0 {
					// the same decision through Execute: the delegate runs iff the request is admitted, otherwise ErrFailFast
					ran := false
					res, err := r.cb.Execute(context.Background(), func(context.Context) (interface{}, error) { ran = true; return tid, nil })
					b = ran
					if ran != (err == nil) || (ran && res != tid) || (!ran && err != cbreaker.ErrFailFast) {
						r.msg = fmt.Sprintf("C03 Execute: delegate ran=%v but result=%v err=%v", ran, res, err)
					}
				} else {
					b = r.cb.CanRequest()
				}
				r.h.end(o, fmt.Sprint(b))
				r.checkCan(o, b, tid, nep)
				if !b && r.msg == "" && r.tk.noise == nil && r.tk.sets == setsBefore && r.tk.nread[tid] == 0 {
					// rejected without looking at the clock, while the clock stood still: if the circuit was one OPEN / HALF_OPEN state during the
					// whole call and the clock was past that state's deadline, somebody had to be admitted
					var over []*epoch
					for _, e := range r.epochs {
						if e.start <= o.ret && (e.end == 0 || e.end >= o.inv) {
							over = append(over, e)
						}
					}
					if len(over) == 1 && over[0].kind != "C" && nowBefore >= over[0].deadline {
						r.msg = fmt.Sprintf("C03 CanRequest rejected without reading the ticker although the ticker stood at %d, past the deadline %d of the %s state, during the whole call and nobody changed the state", nowBefore, over[0].deadline, over[0].kind)
					}
				}
			case "succ":
				o := r.h.begin(tid, "succ", -1)
				r.cb.OnSuccess()
				r.h.end(o, "unit")
				r.checkReport(o, "OnSuccess", "closes")
			case "fail":
				o := r.h.begin(tid, "fail", -1)
				r.cb.OnFailure()
				r.h.end(o, "unit")
				r.checkReport(o, "OnFailure", "re-opens")
			}
		}
	}
}

// C03 monitor for one CanRequest call (judged at its response)
func (r *brun) checkCan(o *opRec, admitted bool, tid int, nepBefore int) {
	if r.msg != "" {
		return
	}
	// epochs overlapping the call interval [o.inv, o.ret]
	var over []*epoch
	for _, e := range r.epochs {
		if e.start <= o.ret && (e.end == 0 || e.end >= o.inv) {
			over = append(over, e)
		}
	}
	// did this call itself perform a transition? (it fires S:H in its own grant): detect through the epoch list growth by this thread
	ownTransition := false
	for i := nepBefore; i < len(r.epochs); i++ {
		if r.epochs[i].kind == "H" && r.epochs[i].by == tid && r.epochs[i].start >= o.inv {
			ownTransition = true
			// the epoch it replaced
			prev := r.epochs[i-1]
			if prev.kind == "C" {
				r.msg = "C03 a CanRequest moved a CLOSED circuit to HALF_OPEN"
			} else if r.tk.first[tid] < prev.deadline {
				r.msg = fmt.Sprintf("C03 CanRequest admitted a trial although its own ticker reading %d is before the deadline %d of the %s state", r.tk.first[tid], prev.deadline, prev.kind)
			}
		}
	}
	if admitted && !ownTransition {
		ok := false
		for _, e := range over {
			if e.kind == "C" {
				ok = true
			}
		}
		if !ok {
			r.msg = fmt.Sprintf("C03 CanRequest returned true without becoming the trial although the circuit was never CLOSED during the call (epochs %s)", epochsStr(over))
		}
	}
	if !admitted {
		allClosed := true
		for _, e := range over {
			if e.kind != "C" {
				allClosed = false
			}
		}
		if allClosed {
			r.msg = "C03 CanRequest returned false although the circuit was CLOSED during the whole call"
		}
		// someone-wins: the state did not change during the call, it was OPEN/HALF_OPEN, and the caller's reading had passed the deadline
		if len(over) == 1 && over[0].kind != "C" && r.tk.nread[tid] >= 1 && r.tk.first[tid] >= over[0].deadline {
			r.msg = fmt.Sprintf("C03 CanRequest rejected although its reading %d had passed the deadline %d and nobody else changed the state during the call", r.tk.first[tid], over[0].deadline)
		}
	}
}

// C03 monitor for one OnSuccess / OnFailure call (judged at its response): "one reported success closes the circuit, one reported
// failure re-opens it for a full window". If the circuit was HALF_OPEN (one and the same half-open state) during the whole call and
// nobody changed the state, the report was dropped. (Transitions are recorded by the listener in the slot of the CAS that made them,
// so a CAS lost to another thread always shows as a second epoch.)
func (r *brun) checkReport(o *opRec, name, effect string) {
	if r.msg != "" {
		return
	}
	var over []*epoch
	for _, e := range r.epochs {
		if e.start <= o.ret && (e.end == 0 || e.end >= o.inv) {
			over = append(over, e)
		}
	}
	if len(over) == 1 && over[0].kind == "H" {
		r.msg = fmt.Sprintf("C03 %s returned without a transition although the circuit was HALF_OPEN during the whole call and nobody else changed the state (a report %s it; epochs %s)", name, effect, epochsStr(over))
	}
}

func epochsStr(es []*epoch) string {
	var s []string
	for _, e := range es {
		s = append(s, fmt.Sprintf("%s[%d,%d]dl=%d", e.kind, e.start, e.end, e.deadline))
	}
	return strings.Join(s, " ")
}

const nowAuto = math.MinInt64 // "set" with this value: the harness computes the reading at run time

// tickBase: origin of the ticker axis of the current run ("for all ticker values": positive, zero, negative, far from zero)
var tickBase int64 = 1000

func genBreakerProgram(rng *rand.Rand, family string, c bcfg) (ths []bthread) {
	switch family {
	case "c10":
		// rounds of concurrent reports at a constant ticker value, each followed by a quiescent probe
		now := tickBase
		ph := 0
		for round := 0; round < 2+rng.Intn(3); round++ {
			switch rng.Intn(6) {
			case 0: // standing still
			case 1:
				now -= 1 + int64(rng.Intn(int(c.interval)+1)) // stepping back
			case 2:
				now += c.window + int64(rng.Intn(3))
			default:
				now += int64(rng.Intn(int(c.interval) + 2))
			}
			ths = append(ths, bthread{ops: []bop{{kind: "set", now: now}}, phase: ph})
			ph++
			for k := 2 + rng.Intn(3); k > 0; k-- {
				var ops []bop
				for n := 1 + rng.Intn(2); n > 0; n-- {
					ops = append(ops, bop{kind: []string{"succ", "fail"}[rng.Intn(2)]})
				}
				ths = append(ths, bthread{ops: ops, phase: ph})
			}
			ph++
			// quiescent probe: a single report beyond the update interval must roll and report exactly
			ths = append(ths, bthread{ops: []bop{{kind: "set", now: nowAuto}, {kind: "succ"}}, phase: ph}) // nowAuto: harness computes curTs+interval+r at run time
			ph++
		}
	default: // c03
		now := tickBase
		// phase 0: trip the circuit sequentially (two failures, advance past the interval, one more failure)
		trip := []bop{{kind: "set", now: now}, {kind: "fail"}, {kind: "fail"}, {kind: "set", now: now + c.interval}, {kind: "fail"}, {kind: "can"}}
		ths = append(ths, bthread{ops: trip, phase: 0})
		opened := now + c.interval
		ph := 1
		for round := 0; round < 1+rng.Intn(3); round++ {
			// clock relative to the open deadline
			var at int64
			switch rng.Intn(4) {
			case 0:
				at = opened + c.open - 1 - int64(rng.Intn(2))
			case 1:
				at = opened + c.open
			default:
				at = opened + c.open + int64(rng.Intn(int(c.trial)+3))
			}
			ths = append(ths, bthread{ops: []bop{{kind: "set", now: at}}, phase: ph})
			ph++
			for k := 2 + rng.Intn(3); k > 0; k-- {
				var ops []bop
				for n := 1 + rng.Intn(2); n > 0; n-- {
					switch r := rng.Intn(10); {
					case r < 6:
						ops = append(ops, bop{kind: "can"})
					case r < 8:
						ops = append(ops, bop{kind: "succ"})
					default:
						ops = append(ops, bop{kind: "fail"})
					}
				}
				ths = append(ths, bthread{ops: ops, phase: ph})
			}
			ph++
			opened = at
		}
	}
	return
}

func runBreakerConc(fs *flag.FlagSet, args []string) {
	cf := addCommon(fs)
	full := fs.Bool("fullstack", false, "queue and adder layers yield too (monitors only, no acceptor)")
	fs.Parse(args)
	cf.open()
	cf.runRange(func(run int, rng *rand.Rand) {
		clock = 0
		family := *cf.kind
		if family == "any" || family == "mix" {
			family = []string{"c03", "c10"}[rng.Intn(2)]
		}
		c := bcfg{thr: []float64{0.5, 0.3, 0.8}[rng.Intn(3)], minReq: int64(1 + rng.Intn(2)), trial: int64(2 + rng.Intn(4)), open: int64(5 + rng.Intn(10)),
			interval: int64(2 + rng.Intn(5))}
		c.window = c.interval * int64(2+rng.Intn(3))
		if rng.Intn(3) == 0 {
			// realistic magnitudes: microseconds ... hours (the values are nanoseconds); tick steps scale with the configuration
			scale := []int64{1000, 1000000, 1000000000, 60000000000, 3600000000000}[rng.Intn(5)]
			c.trial, c.open, c.interval, c.window = c.trial*scale, c.open*scale, c.interval*scale, c.window*scale
		}
		if family == "c10" {
			c.thr = 1 // never trips: every report exercises the window
			c.minReq = 1 << 40
		}
		r := &brun{cfg: c}
		fastrand.Next = func() uint32 { return probeEdges[rng.Intn(len(probeEdges))] }
		tickBase = []int64{1000, 1000, 1000, 0, -1, -5000, -(1 << 40), 1 << 50, -1000000}[rng.Intn(9)]
		r.tk = &cticker{now: tickBase, last: map[int]int64{}, first: map[int]int64{}, nread: map[int]int{}}
		if family == "c03" && rng.Intn(2) == 0 {
			r.tk.noise = func() int64 { return []int64{0, 0, 0, 1, -1, 2}[rng.Intn(6)] }
		}
		// constructor outside the controlled run: two readings
		b, err := cbreaker.NewCircuitBreakerBuilder().SetTicker(r.tk).SetFailureRateThreshold(c.thr).SetMinimumRequestThreshold(c.minReq).
			SetTrialRequestInterval(time.Duration(c.trial)).SetCircuitOpenWindow(time.Duration(c.open)).
			SetCounterSlidingWindow(time.Duration(c.window)).SetCounterUpdateInterval(time.Duration(c.interval)).
			AddListener(&clistener{r}).Build()
		if err != nil {
			panic(err)
		}
		r.cb = b
		r.epochs = []*epoch{{kind: "C", start: 0, by: -1}}
		ths := genBreakerProgram(rng, family, c)
		fmt.Fprintf(out, "reset breaker %s %d %d %d %d %d %d %d\n", fmt.Sprintf("%x", math.Float64bits(c.thr)), c.minReq, c.trial, c.open, c.window, c.interval, ctorTick(r.tk.ctor, 0), ctorTick(r.tk.ctor, 1))
		s := newSched(rng, len(ths))
		var bodies []func()
		var desc []string
		// c10 bookkeeping
		type ev struct {
			ts   int64
			succ bool
		}
		var evs []ev
		curTs := tickBase
		for i, th := range ths {
			i, th := i, th
			s.phase[i] = th.phase
			desc = append(desc, fmt.Sprintf("t%d=%s", i, th))
			if family == "c10" && len(th.ops) == 2 && th.ops[0].kind == "set" && th.ops[0].now == nowAuto {
				// quiescent probe
				bodies = append(bodies, func() {
					vsched.Point()
					r.tk.nread[i] = 0
					now := curTs + c.interval + int64(rng.Intn(3))
					if r.tk.now >= now {
						now = r.tk.now + c.interval + int64(rng.Intn(3))
					}
					r.tk.now = now
					nc := len(r.counts)
					o := r.h.begin(i, "succ", -1)
					r.cb.OnSuccess()
					r.h.end(o, "unit")
					var sExp, fExp int64
					for _, x := range evs {
						if x.ts >= now-c.window {
							if x.succ {
								sExp++
							} else {
								fExp++
							}
						}
					}
					if r.msg == "" {
						if len(r.counts) != nc+1 {
							r.msg = fmt.Sprintf("C10 quiescent report at tick %d (bucket %d, interval %d) did not roll", now, curTs, c.interval)
						} else if got := r.counts[nc]; got.s != sExp || got.f != fExp {
							r.msg = fmt.Sprintf("C10 first roll after quiescence at tick %d reports %d/%d, exactly %d/%d reports were recorded in intervals within the window (%d)", now, got.s, got.f, sExp, fExp, c.window)
						}
					}
					curTs = now
					evs = append(evs, ev{now, true})
				})
				continue
			}
			if family == "c10" && len(th.ops) == 1 && th.ops[0].kind == "set" {
				bodies = append(bodies, func() {
					vsched.Point()
					r.tk.now = th.ops[0].now
				})
				continue
			}
			if family == "c10" {
				// reporter of a concurrent round: attribution of its events is decided by the constant reading of the round
				bodies = append(bodies, func() {
					for _, op := range th.ops {
						vsched.Point()
						r.tk.nread[i] = 0
						now := r.tk.now
						var bts int64
						switch {
						case now < curTs:
							bts = now
						case now < curTs+c.interval:
							bts = curTs
						default:
							bts = now
						}
						nc := len(r.counts)
						o := r.h.begin(i, op.kind, -1)
						evs = append(evs, ev{bts, op.kind == "succ"}) // invoked: may be counted from now on
						if op.kind == "succ" {
							r.cb.OnSuccess()
						} else {
							r.cb.OnFailure()
						}
						r.h.end(o, "unit")
						if now >= curTs+c.interval && len(r.counts) > nc {
							curTs = now // this reporter rolled
						}
						// upper bound: everything reported so far in intervals within the window
						for _, got := range r.counts[nc:] {
							var sMax, fMax int64
							for _, x := range evs {
								if x.ts >= now-c.window {
									if x.succ {
										sMax++
									} else {
										fMax++
									}
								}
							}
							if r.msg == "" && (got.s > sMax || got.f > fMax || got.s < 0 || got.f < 0) {
								r.msg = fmt.Sprintf("C10 count %d/%d exceeds the %d/%d reports made so far in intervals within the window", got.s, got.f, sMax, fMax)
							}
						}
					}
				})
				continue
			}
			bodies = append(bodies, r.body(i, th))
		}
		runf(run, "family=%s full=%v thr=%g min=%d trial=%d open=%d window=%d interval=%d %s", family, *full, c.thr, c.minReq, c.trial, c.open, c.window, c.interval, strings.Join(desc, " "))
		layers := map[string]bool{"b": true, "k": true}
		if *full {
			layers = map[string]bool{"b": true, "k": true, "q": true, "a": true, "r": true}
		}
		res := vsched.Run(out, layers, bodies, 400000, s.pick)
		fmt.Fprintf(out, "end\n")
		if r.msg == "" && (res.Budget || res.Deadlock) {
			r.msg = fmt.Sprintf("C03 run did not terminate (budget=%v deadlock=%v)", res.Budget, res.Deadlock)
		}
		if r.msg != "" {
			monf(run, "FAIL %s", r.msg)
		} else {
			monf(run, "ok steps=%d ops=%d threads=%d epochs=%d counts=%d", res.Steps, len(r.h.ops), len(ths), len(r.epochs), len(r.counts))
		}
	})
}

func init() { modes["breaker"] = runBreakerConc }

// ctorTick: the k-th ticker reading of the constructor (the model expects two: the first bucket's timestamp and the CLOSED state's
// deadline base); a constructor that reads the ticker fewer times is left to the acceptor, the harness must not crash on it
func ctorTick(ct []int64, k int) int64 {
	if k < len(ct) {
		return ct[k]
	}
	return 0
}
