package main

import (
	"flag"
	"fmt"
	"math"
	"math/rand"
	"strings"

	"garrshim/vsched"
	"github.com/valyala/fastrand"
	"go.linecorp.com/garr/adder"
)

// uniform wrapper over the six adder variants; float adders carry exactly representable values
type anyAdder interface {
	Add(x int64)
	Inc()
	Dec()
	Sum() int64
	Store(v int64)
	Reset()
	SumAndReset() int64
}

type longW struct{ a adder.LongAdder }

func (w longW) Add(x int64)        { w.a.Add(x) }
func (w longW) Inc()               { w.a.Inc() }
func (w longW) Dec()               { w.a.Dec() }
func (w longW) Sum() int64         { return w.a.Sum() }
func (w longW) Store(v int64)      { w.a.Store(v) }
func (w longW) Reset()             { w.a.Reset() }
func (w longW) SumAndReset() int64 { return w.a.SumAndReset() }

// float adders: the harness values are float64 bit patterns carried in an int64
type floatW struct{ a adder.Float64Adder }

func fb(x int64) float64            { return math.Float64frombits(uint64(x)) }
func bf(f float64) int64            { return int64(math.Float64bits(f)) }
func (w floatW) Add(x int64)        { w.a.Add(fb(x)) }
func (w floatW) Inc()               { w.a.Inc() }
func (w floatW) Dec()               { w.a.Dec() }
func (w floatW) Sum() int64         { return bf(w.a.Sum()) }
func (w floatW) Store(v int64)      { w.a.Store(fb(v)) }
func (w floatW) Reset()             { w.a.Reset() }
func (w floatW) SumAndReset() int64 { return bf(w.a.SumAndReset()) }

// the six variants: Type constant of adder/pkg.go, value domain, documented dynamic type
// (pkg.go: "JDKAdderType is type for JDK-based LongAdder", "RandomCellAdderType is type for RandomCellAdder", "AtomicAdderType is type for
// atomic-based adder", "MutexAdderType is type for MutexAdder", "JDKF64AdderType is type for JDK-based DoubleAdder", "AtomicF64AdderType is
// type for atomic-based float64 adder"; "DefaultAdder returns jdk long adder", "DefaultFloat64Adder returns jdk f64 adder")
var adderVariants = map[string]struct {
	t     adder.Type
	tname string
	float bool
	dyn   string
}{
	"jdk":        {adder.JDKAdderType, "JDKAdderType", false, "*adder.JDKAdder"},
	"randomcell": {adder.RandomCellAdderType, "RandomCellAdderType", false, "*adder.RandomCellAdder"},
	"atomic":     {adder.AtomicAdderType, "AtomicAdderType", false, "*adder.AtomicAdder"},
	"mutex":      {adder.MutexAdderType, "MutexAdderType", false, "*adder.MutexAdder"},
	"jdkf64":     {adder.JDKF64AdderType, "JDKF64AdderType", true, "*adder.JDKF64Adder"},
	"atomicf64":  {adder.AtomicF64AdderType, "AtomicF64AdderType", true, "*adder.AtomicF64Adder"},
}

// newAdder constructs the variant `impl` directly (via "direct"), through the factory NewLongAdder / NewFloat64Adder (via "factory") or
// through DefaultAdder / DefaultFloat64Adder (via "default", JDK variants only). It returns the wrapped adder, the call that made it, and
// the dynamic type of what came back. maxCells is a package variable of the instrumented copy, so the override applies to all of them.
func newAdder(impl, via string) (a anyAdder, float bool, call, dyn string) {
	v, ok := adderVariants[impl]
	if !ok {
		panic("impl")
	}
	if v.float {
		var f adder.Float64Adder
		switch {
		case via == "default" && impl == "jdkf64":
			f, call = adder.DefaultFloat64Adder(), "adder.DefaultFloat64Adder()"
		case via != "direct":
			f, call = adder.NewFloat64Adder(v.t), "adder.NewFloat64Adder(adder."+v.tname+")"
		case impl == "jdkf64":
			f, call = adder.NewJDKF64Adder(), "adder.NewJDKF64Adder()"
		default:
			f, call = adder.NewAtomicF64Adder(), "adder.NewAtomicF64Adder()"
		}
		return floatW{f}, true, call, fmt.Sprintf("%T", f)
	}
	var l adder.LongAdder
	switch {
	case via == "default" && impl == "jdk":
		l, call = adder.DefaultAdder(), "adder.DefaultAdder()"
	case via != "direct":
		l, call = adder.NewLongAdder(v.t), "adder.NewLongAdder(adder."+v.tname+")"
	case impl == "jdk":
		l, call = adder.NewJDKAdder(), "adder.NewJDKAdder()"
	case impl == "randomcell":
		l, call = adder.NewRandomCellAdder(), "adder.NewRandomCellAdder()"
	case impl == "atomic":
		l, call = adder.NewAtomicAdder(), "adder.NewAtomicAdder()"
	default:
		l, call = adder.NewMutexAdder(), "adder.NewMutexAdder()"
	}
	return longW{l}, false, call, fmt.Sprintf("%T", l)
}

type aop struct {
	kind string // add inc dec sum store reset sar
	x    int64  // inc / dec: +1 / -1 (float: the bit patterns of +1.0 / -1.0), i.e. the update the call is documented to make
	id   int    // update id (add, inc, dec)
}

type athread struct {
	ops   []aop
	phase int
}

func (t athread) String() string {
	var s []string
	for _, o := range t.ops {
		switch o.kind {
		case "add", "store":
			s = append(s, fmt.Sprintf("%s(%d)", o.kind, o.x))
		case "inc", "dec":
			s = append(s, o.kind) // the real call is Inc() / Dec()
		default:
			s = append(s, o.kind)
		}
	}
	return fmt.Sprintf("ph%d:%s", t.phase, strings.Join(s, ","))
}

type arun struct {
	a     anyAdder
	float bool
	wild  bool // arbitrary floats: no order-independent reference
	h     history
	panic string // first panic of a logical thread (recovered): a violation, never a silent crash
	lean  bool   // (the second adder of a -twin run) it is left out of the first concurrent phase of every other thread: it sees less contention and grows less
	twin  *arun  // -twin: a second adder of the same type alive at the same time; every operation is made on both (two objects are independent)
}

func (r *arun) val(v int64) string {
	if r.float {
		return fmt.Sprint(uint64(v))
	}
	return fmt.Sprint(v)
}

func (r *arun) body(tid int, th athread) func() {
	return func() {
		cur := "start"
		defer func() {
			if p := recover(); p != nil && r.panic == "" {
				r.panic = fmt.Sprintf("panic in thread %d during %s: %v", tid, cur, p)
			}
		}()
		for _, op := range th.ops {
			vsched.Point()
			cur = op.kind
			r.do(tid, op)
			if r.twin != nil && !(r.twin.lean && tid%2 == 1 && th.phase == 1) {
				vsched.Point()
				cur = op.kind + " (second adder)"
				r.twin.do(tid, op)
			}
		}
	}
}

func (r *arun) do(tid int, op aop) {
	switch op.kind {
	case "add", "inc", "dec":
		// towards the model and the monitors Inc / Dec ARE Add(+1) / Add(-1): same request line, same history record;
		// only the call made on the real adder differs
		clock++
		o := &opRec{tid: tid, kind: "add", arg: op.id, inv: clock}
		r.h.ops = append(r.h.ops, o)
		vsched.Logf("inv %d add %s\n", tid, r.val(op.x))
		switch op.kind {
		case "inc":
			r.a.Inc()
		case "dec":
			r.a.Dec()
		default:
			r.a.Add(op.x)
		}
		r.h.end(o, "unit")
	case "sum":
		o := r.h.begin(tid, "sum", -1)
		s := r.a.Sum()
		r.h.end(o, r.val(s))
	case "store":
		clock++
		o := &opRec{tid: tid, kind: "store", inv: clock, x: op.x}
		r.h.ops = append(r.h.ops, o)
		vsched.Logf("inv %d store %s\n", tid, r.val(op.x))
		r.a.Store(op.x)
		r.h.end(o, "unit")
	case "reset":
		o := r.h.begin(tid, "reset", -1)
		r.a.Reset()
		r.h.end(o, "unit")
	case "sar":
		o := r.h.begin(tid, "sar", -1)
		s := r.a.SumAndReset()
		r.h.end(o, r.val(s))
	}
}

var probeEdges = []uint32{0, 1, 2, 3, 1, 0x80000000, 5, 2, 7, 0x80000001, 1 << 20, 0xffffffff, 4, 6, 0x7fffffff}

var extremeInts = []int64{0, 1, -1, math.MaxInt64, math.MinInt64, math.MaxInt64 - 1, math.MinInt64 + 1, 1 << 62, -(1 << 62), 1 << 32, -1 << 31}

// program: phases 1 (concurrent), 2 (solo maintenance), 3 (concurrent), 4 (final solo sum)
var lastWild bool // set by genAdderProgram: the program just generated uses arbitrary floats

func genAdderProgram(rng *rand.Rand, family string, float bool, mutex bool) (ths []athread, xs []int64) {
	bit := 0
	one, minusOne := int64(1), int64(-1)
	if float {
		one, minusOne = bf(1), bf(-1)
	}
	pow2 := family == "pow2" || family == "contend" || family == "grow"
	// "unit" runs: a third of the updates are Inc / Dec calls whatever the family's value stream says. In the power-of-two families of
	// the int64 adders this switches off the decoding of concurrent Sums (C09) for the phase, so it is rare there; everywhere an update
	// whose value is +1 / -1 anyway (2^0 in the power-of-two streams, the extreme-value table) is made through Inc / Dec half of the time.
	units := rng.Intn(3) == 0
	if pow2 && !float {
		units = rng.Intn(8) == 0
	}
	// "wild" float runs (a third of the float runs outside the power-of-two family): arbitrary finite doubles of all magnitudes (subnormals to 2^900,
	// both signs), so that every addition rounds. There is no order-independent reference for such sums: these runs are judged by the
	// step-level acceptance against the exact IEEE-754 model, and by the part of the Go monitor that needs no reference for a sum of
	// several rounded terms: what a solo phase reads right after Reset / SumAndReset / Store, and after one further update (C16).
	lastWild = float && family != "pow2" && rng.Intn(3) == 0
	wildVal := func() int64 {
		e := uint64(rng.Intn(1924)) // biased exponent 0 (subnormal) .. 1923 (2^900)
		m := rng.Uint64() & (1<<52 - 1)
		if rng.Intn(4) == 0 {
			m &= ^uint64(0) << uint(rng.Intn(52)) // short significands: exact cancellations happen
		}
		return int64(uint64(rng.Intn(2))<<63 | e<<52 | m)
	}
	mkAdd := func() aop {
		var x int64
		switch {
		case lastWild:
			x = wildVal()
		case float:
			// exactly representable partial sums: distinct powers of two 2^0..2^40, some negative twins of earlier ones
			x = bf(float64(int64(1) << uint(bit%41)))
			if bit >= 41 {
				x = bf(-float64(int64(1) << uint(bit%41)))
			}
		case pow2:
			x = int64(1) << uint(bit%62)
		default:
			if rng.Intn(2) == 0 {
				x = extremeInts[rng.Intn(len(extremeInts))]
			} else {
				x = int64(rng.Uint64())
			}
		}
		kind := "add"
		if units && rng.Intn(3) == 0 {
			x = []int64{one, minusOne}[rng.Intn(2)]
		}
		if (x == one || x == minusOne) && (units || rng.Intn(2) == 0) {
			kind = "inc"
			if x == minusOne {
				kind = "dec"
			}
		}
		id := bit
		bit++
		xs = append(xs, x)
		return aop{kind: kind, x: x, id: id}
	}
	conc := func(phase int) {
		nth := 2 + rng.Intn(3)
		nops := 4
		if family == "contend" {
			nth, nops = 4, 7
		}
		if family == "grow" {
			nth, nops = 5+rng.Intn(2), 10
		}
		for t := 0; t < nth; t++ {
			var ops []aop
			for k := 1 + rng.Intn(nops); k > 0; k-- {
				switch r := rng.Intn(10); {
				case r < 7:
					ops = append(ops, mkAdd())
				case r < 9 || !mutex:
					ops = append(ops, aop{kind: "sum"})
				default:
					ops = append(ops, aop{kind: []string{"sar", "sar", "reset", "store"}[rng.Intn(4)], x: int64(rng.Intn(1000))})
				}
			}
			ths = append(ths, athread{ops: ops, phase: phase})
		}
	}
	addVal := func(x int64) aop {
		kind := "add"
		if (x == one || x == minusOne) && rng.Intn(2) == 0 {
			kind = map[int64]string{one: "inc", minusOne: "dec"}[x]
		}
		id := bit
		bit++
		xs = append(xs, x)
		return aop{kind: kind, x: x, id: id}
	}
	maint := func(phase int) {
		var ops []aop
		if float && rng.Intn(5) == 0 {
			// exact cancellation across cells: after a clear, a huge value and its negation (they usually land in different cells of an
			// existing table), the total is exactly what the next Reset / SumAndReset / Store(0) sets anyway - the clear must still
			// clear: small updates afterwards are exact only if nothing huge is left anywhere. Every partial sum is representable.
			big := bf([]float64{1 << 60, -(1 << 62), 0x1p900, 1 << 54}[rng.Intn(4)])
			ops = append(ops, aop{kind: "reset"}, addVal(big), addVal(bf(-fb(big))), aop{kind: "sum"},
				[]aop{{kind: "reset"}, {kind: "sar"}, {kind: "store", x: bf(0)}}[rng.Intn(3)])
			for k := 1 + rng.Intn(3); k > 0; k-- {
				ops = append(ops, addVal([]int64{one, minusOne, one, bf(0.125), bf(3)}[rng.Intn(5)]), aop{kind: "sum"})
			}
			ths = append(ths, athread{ops: ops, phase: phase})
			return
		}
		for k := 1 + rng.Intn(4); k > 0; k-- {
			switch rng.Intn(6) {
			case 0:
				v := int64(rng.Intn(1 << 20))
				if !float && rng.Intn(3) == 0 {
					v = extremeInts[rng.Intn(len(extremeInts))]
				}
				if float {
					v = bf(float64(v))
				}
				ops = append(ops, aop{kind: "store", x: v})
			case 1:
				ops = append(ops, aop{kind: "reset"})
			case 2:
				ops = append(ops, aop{kind: "sar"})
			case 3:
				ops = append(ops, mkAdd())
			default:
				ops = append(ops, aop{kind: "sum"})
			}
		}
		ths = append(ths, athread{ops: ops, phase: phase})
	}
	conc(1)
	if !pow2 || rng.Intn(2) == 0 {
		maint(2)
		if rng.Intn(2) == 0 {
			conc(3)
			if rng.Intn(2) == 0 {
				maint(4)
			}
		}
	}
	ths = append(ths, athread{ops: []aop{{kind: "sum"}}, phase: 9})
	return
}

func runAdder(fs *flag.FlagSet, args []string) {
	cf := addCommon(fs)
	impl := fs.String("impl", "jdk", "jdk jdkf64 randomcell atomic atomicf64 mutex")
	maxCells := fs.Int("maxcells", 0, "override maxCells (0 = library default)")
	twin := fs.Bool("twin", false, "a second adder of the same type, alive at the same time and given the same operations (monitors only: no acceptor)")
	fs.Parse(args)
	cf.open()
	defMax := adder.VerifMaxCells()
	cf.runRange(func(run int, rng *rand.Rand) {
		clock = 0
		mc := defMax
		if *maxCells > 0 {
			mc = *maxCells
		} else if rng.Intn(2) == 0 {
			// (limits that are not powers of two: the last doubling overshoots, the fully grown table is LONGER than maxCells)
			mc = []int{2, 4, 8, 3, 5, 6}[rng.Intn(6)]
		}
		if *cf.kind == "grow" && mc < 8 {
			mc = []int{64, 64, 48, 24}[rng.Intn(4)] // let the table grow through several steps
		}
		adder.VerifSetMaxCells(mc)
		family := *cf.kind
		if family == "any" {
			family = []string{"pow2", "mix", "contend", "grow"}[rng.Intn(4)]
		}
		growPalette := rng.Intn(2)
		fastrand.Next = func() uint32 {
			if family == "contend" {
				return []uint32{1, 3, 5, 7, 9, 1, 1, 3}[rng.Intn(8)]
			}
			if family == "grow" {
				// everybody hashes to the same few cells: repeated CAS failures drive the table through its growth steps
				if growPalette == 1 {
					// one hot cell plus newcomers to the other slots: cells are attached while the table is being replaced
					return []uint32{1, 1, 1, 2, 1, 3, 1, 4, 1, 6, 1, 7}[rng.Intn(12)]
				}
				return []uint32{1, 1, 1, 5, 1, 9, 1, 13}[rng.Intn(8)]
			}
			if rng.Intn(4) == 0 {
				return rng.Uint32()
			}
			return probeEdges[rng.Intn(len(probeEdges))]
		}
		// a quarter of the runs make the adder through the factory of adder/pkg.go, an eighth (JDK variants) through Default*Adder
		via := "direct"
		switch v := rng.Intn(8); {
		case v < 2 || (v == 2 && *impl != "jdk" && *impl != "jdkf64"):
			via = "factory"
		case v == 2:
			via = "default"
		}
		a, float, call, dyn := newAdder(*impl, via)
		r := &arun{a: a, float: float}
		ths, xs := genAdderProgram(rng, family, float, *impl == "mutex")
		r.wild = lastWild
		if *twin {
			a2, _, _, _ := newAdder(*impl, via)
			r.twin = &arun{a: a2, float: float, wild: lastWild, lean: rng.Intn(2) == 0}
		}
		alg := "int"
		if float {
			alg = "float"
		}
		switch *impl {
		case "jdk", "jdkf64":
			fmt.Fprintf(out, "reset adder %s %d\n", alg, mc)
		case "mutex":
			fmt.Fprintf(out, "reset madder\n")
		default:
			fmt.Fprintf(out, "reset sadder %s\n", *impl)
		}
		s := newSched(rng, len(ths))
		if family == "contend" || (family == "grow" && growPalette == 0) {
			s.stick = 0 // (the newcomer palette keeps the drawn stickiness: an attach completes inside another thread's table replacement)
		}
		stale := (family == "grow" || family == "contend") && rng.Intn(3) == 0

		var bodies []func()
		var desc []string
		for i, th := range ths {
			bodies = append(bodies, r.body(i, th))
			s.phase[i] = th.phase
			desc = append(desc, fmt.Sprintf("t%d=%s", i, th))
			if stale && th.phase == 1 && rng.Intn(2) == 0 {
				// "stale snapshot" schedules: the thread is parked somewhere inside its operations (holding whatever it has read: the table,
				// a slot, the lock) for a bounded time while the others go on, then runs alone for a while
				s.parkAt[i] = 2 + rng.Intn(40)
			}
		}
		if stale {
			s.parkFor = 20 + rng.Intn(200)
			s.soloMax = 10 + rng.Intn(40)
		}
		runf(run, "family=%s impl=%s ctor=%s maxcells=%d wild=%v %s", family, *impl, call, mc, r.wild, strings.Join(desc, " "))
		if want := adderVariants[*impl].dyn; dyn != want {
			// no property tag: whichever check runs this variant is not looking at the documented implementation
			monf(run, "FAIL %s returned %s; adder/pkg.go documents %s for this constructor", call, dyn, want)
			return
		}
		layers := map[string]bool{"a": true, "r": true, "m": true}
		vsched.PostOp = rng.Intn(4) == 0 || (family == "grow" && rng.Intn(2) == 0) // a quarter of the runs (grow: more): a yield after every atomic access as well
		res := vsched.Run(out, layers, bodies, 200000, s.pick)
		vsched.PostOp = false
		fmt.Fprintf(out, "end\n")
		msg := ""
		if res.Budget || res.Deadlock {
			tag := "C02"
			for _, th := range ths {
				for _, o := range th.ops {
					if o.kind == "store" || o.kind == "reset" || o.kind == "sar" {
						tag = "C02,C16" // an update that never returns on an adder that was set / cleared: "later updates accumulate on top" (C16) as well
					}
				}
			}
			msg = fmt.Sprintf("%s run did not terminate (budget=%v deadlock=%v)", tag, res.Budget, res.Deadlock)
		}
		if r.panic != "" {
			msg = r.panic // untagged: reported by every check that runs this program
		}
		if msg == "" {
			msg = monitorAdder(r, ths, xs, *impl == "mutex")
		}
		if msg == "" && r.twin != nil {
			if m2 := monitorAdder(r.twin, ths, xs, *impl == "mutex"); m2 != "" {
				msg = m2 + " [the second of two adders of this type alive at the same time and given the same operations]"
			}
		}
		if msg != "" {
			monf(run, "FAIL %s", msg)
		} else {
			monf(run, "ok steps=%d ops=%d threads=%d", res.Steps, len(r.h.ops), len(ths))
		}
	})
}

// reference arithmetic on harness values (int64 wrap-around, or float64 on bit patterns)
func (r *arun) plus(a, b int64) int64 {
	if r.float {
		return bf(fb(a) + fb(b))
	}
	return a + b
}

func monitorAdder(r *arun, ths []athread, xs []int64, mutex bool) string {
	if r.wild {
		return monitorWildSolo(r, ths, xs)
	}
	zero := int64(0)
	if r.float {
		zero = bf(0)
	}
	// phases in time order; within a concurrent phase (odd) use the bounds, in a solo phase the exact reference number
	ref := zero // abstract number at the last quiescent point
	unknown := false
	phases := map[int][]*opRec{}
	phaseOf := map[int]int{}
	for i, th := range ths {
		phaseOf[i] = th.phase
	}
	var order []int
	seen := map[int]bool{}
	for _, o := range r.h.ops {
		p := phaseOf[o.tid]
		phases[p] = append(phases[p], o)
		if !seen[p] {
			seen[p] = true
			order = append(order, p)
		}
	}
	xOf := func(o *opRec) int64 { return xs[o.arg] }
	concAfterMaint := false
	soloMaint, concMaint := false, false // Store / Reset / SumAndReset seen in a solo phase / concurrently with updates (mutex adder)
	for _, p := range order {
		ops := phases[p]
		nthreads := map[int]bool{}
		hasMaint := false
		for _, o := range ops {
			nthreads[o.tid] = true
			if o.kind == "sar" || o.kind == "reset" || o.kind == "store" {
				hasMaint = true
			}
		}
		if p == 9 {
			break // the final quiescent Sum is judged below
		}
		if hasMaint && len(nthreads) == 1 {
			soloMaint = true
		} else if hasMaint {
			concMaint = true
		} else if soloMaint && len(nthreads) > 1 {
			concAfterMaint = true // a phase of concurrent updates on an adder that was set / cleared before
		}
		if len(nthreads) == 1 {
			// solo phase: behaves exactly like a single number (C16)
			for _, o := range ops {
				switch o.kind {
				case "add":
					ref = r.plus(ref, xOf(o))
				case "sum":
					if unknown {
						var v int64
						fmt.Sscan(o.res, &v)
						ref, unknown = v, false
					} else if o.res != r.val(ref) {
						return fmt.Sprintf("C16 solo Sum returned %s, the reference number is %s", o.res, r.val(ref))
					}
				case "store":
					ref, unknown = storeArg(ths, o), false
				case "reset":
					ref, unknown = zero, false
				case "sar":
					if unknown {
						unknown = false
					} else if o.res != r.val(ref) {
						return fmt.Sprintf("C16 solo SumAndReset returned %s, the reference number is %s", o.res, r.val(ref))
					}
					ref = zero
				}
			}
			continue
		}
		if hasMaint {
			// mutex adder: maintenance concurrent with updates is atomic (C19): Σ SumAndReset results + final = total,
			// checked only when the phase contains no Store/Reset (they discard an unknown amount)
			pure := true
			total := ref
			got := zero
			for _, o := range ops {
				switch o.kind {
				case "reset", "store":
					pure = false
				case "add":
					total = r.plus(total, xOf(o))
				case "sar":
					var v int64
					fmt.Sscan(o.res, &v)
					got = r.plus(got, v)
				}
			}
			if pure {
				ref = total - got // what must be left
			} else {
				unknown = true // resynchronise at the next solo Sum
			}
			continue
		}
		// concurrent phase of Add / Sum
		total := ref
		for _, o := range ops {
			if o.kind == "add" {
				total = r.plus(total, xOf(o))
			}
		}
		// C09: every concurrent Sum is ref + Σ of a set S with must ⊆ S ⊆ may (decidable when values are distinct powers of two
		// and ref has none of their bits)
		distinctBits := !r.float && !unknown
		var mask int64
		for _, o := range ops {
			if o.kind == "add" {
				x := xOf(o)
				if x <= 0 || x&(x-1) != 0 || mask&x != 0 || ref&x != 0 {
					distinctBits = false
				}
				mask |= x
			}
		}
		for _, sm := range ops {
			if sm.kind != "sum" || sm.ret == 0 {
				continue
			}
			var v int64
			if r.float {
				var u uint64
				fmt.Sscan(sm.res, &u)
				v = int64(u)
			} else {
				fmt.Sscan(sm.res, &v)
			}
			if distinctBits {
				d := v - ref
				if d&^mask != 0 {
					return fmt.Sprintf("C09 concurrent Sum returned %d = ref %d + %d which is not a sum of whole in-flight updates (mask %d): an update was counted twice or in part", v, ref, d, mask)
				}
				for _, o := range ops {
					if o.kind != "add" {
						continue
					}
					x := xOf(o)
					if o.ret != 0 && o.ret < sm.inv && d&x == 0 {
						return fmt.Sprintf("C09 Sum [%d,%d]=%d misses update %d (t%d) that returned at %d, before the Sum was invoked", sm.inv, sm.ret, v, x, o.tid, o.ret)
					}
					if o.inv > sm.ret && d&x != 0 {
						return fmt.Sprintf("C09 Sum [%d,%d]=%d includes update %d (t%d) invoked at %d, after the Sum returned", sm.inv, sm.ret, v, x, o.tid, o.inv)
					}
				}
			}
		}
		ref = total
	}
	// final quiescent Sum (last op) must equal the reference. Which property a wrong total breaks depends on what the run did before:
	// only updates and Sums: conservation (C02); maintenance in solo phases: agreement with a plain number (C16); maintenance concurrent
	// with updates (mutex adder only): atomicity of the whole API (C19)
	last := r.h.ops[len(r.h.ops)-1]
	if last.kind == "sum" && last.ret != 0 && !unknown && last.res != r.val(ref) {
		tag := "C02"
		if concMaint {
			tag = "C19"
		} else if soloMaint {
			tag = "C16"
			if concAfterMaint {
				// updates lost or duplicated in a concurrent phase that ran on top of the cleared / stored adder: conservation as well
				tag = "C02,C16"
			}
		}
		return fmt.Sprintf("%s after all updates returned Sum=%s but the exact total is %s", tag, last.res, r.val(ref))
	}
	return ""
}

// monitorWildSolo: arbitrary floats. The sum of several rounded terms depends on which cell each landed in, so there is no reference
// for it; but a solo phase (no other thread active) that has just set the adder (Reset / SumAndReset leave +0, Store(v) leaves v)
// holds that number exactly, and one further update x makes it fl(v + x) wherever x lands (all other cells are +0; v is never -0).
func monitorWildSolo(r *arun, ths []athread, xs []int64) string {
	byPhase := map[int]map[int]bool{}
	for _, o := range r.h.ops {
		p := ths[o.tid].phase
		if byPhase[p] == nil {
			byPhase[p] = map[int]bool{}
		}
		byPhase[p][o.tid] = true
	}
	exact, adds := false, 0
	var ref int64
	lastPhase := -1
	for _, o := range r.h.ops {
		p := ths[o.tid].phase
		if len(byPhase[p]) != 1 {
			exact = false
			continue
		}
		if p != lastPhase && lastPhase >= 0 && len(byPhase[lastPhase]) != 1 {
			exact = false
		}
		lastPhase = p
		switch o.kind {
		case "reset":
			exact, adds, ref = true, 0, bf(0)
		case "sar":
			if exact && o.res != r.val(ref) {
				return fmt.Sprintf("C16 solo SumAndReset returned %s (%v); the adder held exactly %s (%v)", o.res, resFloat(o.res), r.val(ref), fb(ref))
			}
			exact, adds, ref = true, 0, bf(0)
		case "store":
			exact, adds, ref = true, 0, o.x
		case "add", "inc", "dec":
			if exact && adds == 0 {
				ref, adds = r.plus(ref, xs[o.arg]), 1
			} else {
				exact = false
			}
		case "sum":
			if exact && o.res != r.val(ref) {
				return fmt.Sprintf("C16 solo Sum returned %s (%v) after the adder was set and at most one update made; it holds exactly %s (%v)", o.res, resFloat(o.res), r.val(ref), fb(ref))
			}
		}
	}
	return ""
}

func resFloat(s string) float64 {
	var u uint64
	fmt.Sscan(s, &u)
	return math.Float64frombits(u)
}

func storeArg(ths []athread, o *opRec) int64 {
	// the k-th store of thread o.tid
	return o.x
}

func init() { modes["adder"] = runAdder }
