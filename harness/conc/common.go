// Command conc: controlled-schedule runner. The real garr code (instrumented scratch copy) runs under the
// token scheduler; stdout carries the trace for the Lean acceptor (Appendix A of DESIGN.md), the file given
// by -mon receives one line per run from the property monitors:
//
//	MON <run> ok <stats…>   |   MON <run> FAIL <Cxx> <reason>   |  RUN <run> <program description>
package main

import (
	"bufio"
	"flag"
	"fmt"
	"math/rand"
	"os"
	"runtime"
	"runtime/debug"
	"strings"

	"garrshim/vsched"
)

var (
	out  *bufio.Writer
	mon  *bufio.Writer
	seed int64
)

// clock is the logical time of invocation / response events (for real-time order in histories)
var clock int

type opRec struct {
	tid      int
	kind     string
	arg      int
	res      string
	inv, ret int // ret == 0: pending
	x        int64
	steps    int // scheduler steps of the owning thread between inv and ret
}

type history struct {
	ops []*opRec
}

func (h *history) begin(tid int, kind string, arg int) *opRec {
	clock++
	o := &opRec{tid: tid, kind: kind, arg: arg, inv: clock}
	h.ops = append(h.ops, o)
	if arg >= 0 && kind != "remove" {
		vsched.Logf("inv %d %s %d\n", tid, kind, arg)
	} else {
		vsched.Logf("inv %d %s\n", tid, kind)
	}
	return o
}

func (h *history) end(o *opRec, res string) {
	clock++
	o.res = res
	o.ret = clock
	vsched.Logf("ret %d %s\n", o.tid, res)
}

// picker state for one run
type sched struct {
	rng      *rand.Rand
	phase    []int // phase of each thread; lower phases run first
	done     func(i int) bool
	frozen   map[int]bool
	freezeAt map[int]int // tid -> freeze after this many of its own steps
	own      []int
	solo     bool // after a freeze: run the remaining threads one after the other
	stick    int  // probability (percent) to keep running the same thread
	last     int
	// "stale snapshot" schedules: thread t is parked after parkAt[t] of its own steps; when nobody else of its phase can run, the
	// parked threads are resumed one at a time (random order), each running alone until it is done or blocks
	parkAt   map[int]int
	resumed  map[int]bool
	resuming int
	// code with a spin lock (striped adders): a parked thread may hold it, so parking is bounded (parkFor global steps, 0 = until
	// nobody else can run) and so is the time a resumed thread runs alone (soloMax own steps, 0 = while it can)
	parkFor   int
	soloMax   int
	soloLeft  int
	parkedAt  map[int]int
}

func (s *sched) pick(runnable []int, step int) int {
	// freeze bookkeeping
	for t, k := range s.freezeAt {
		if !s.frozen[t] && s.own[t] >= k {
			s.frozen[t] = true
			vsched.Logf("freeze %d\n", t)
		}
	}
	minPhase := 1 << 30
	var cand []int
	for _, t := range runnable {
		if s.frozen[t] {
			continue
		}
		if s.phase[t] < minPhase {
			minPhase = s.phase[t]
		}
	}
	var parked []int
	for _, t := range runnable {
		if !s.frozen[t] && s.phase[t] == minPhase {
			if k, ok := s.parkAt[t]; ok && !s.resumed[t] && s.own[t] >= k {
				if _, seen := s.parkedAt[t]; !seen {
					s.parkedAt[t] = step
				}
				if s.parkFor == 0 || step-s.parkedAt[t] < s.parkFor {
					parked = append(parked, t)
					continue
				}
				// parked long enough: back to ordinary scheduling
				s.resumed[t] = true
			}
			cand = append(cand, t)
		}
	}
	if len(s.parkAt) > 0 {
		// a resumed thread runs alone while it can
		for _, t := range cand {
			if t == s.resuming && (s.soloMax == 0 || s.soloLeft > 0) {
				s.soloLeft--
				s.last = t
				s.own[t]++
				return t
			}
		}
		if len(cand) == 0 && len(parked) > 0 {
			t := parked[s.rng.Intn(len(parked))]
			s.resumed[t] = true
			s.resuming = t
			s.soloLeft = s.soloMax
			s.last = t
			s.own[t]++
			return t
		}
	}
	if len(cand) == 0 {
		return -1
	}
	choice := cand[s.rng.Intn(len(cand))]
	if len(s.frozen) > 0 && s.solo {
		choice = cand[0]
	} else if s.last >= 0 && s.rng.Intn(100) < s.stick {
		for _, t := range cand {
			if t == s.last {
				choice = t
			}
		}
	}
	s.last = choice
	s.own[choice]++
	return choice
}

func newSched(rng *rand.Rand, nth int) *sched {
	return &sched{rng: rng, phase: make([]int, nth), frozen: map[int]bool{}, freezeAt: map[int]int{}, own: make([]int, nth), last: -1, parkAt: map[int]int{}, resumed: map[int]bool{}, resuming: -1, parkedAt: map[int]int{},
		stick: []int{0, 30, 60, 85}[rng.Intn(4)]}
}

func monf(run int, format string, args ...interface{}) {
	fmt.Fprintf(mon, "MON %d %s\n", run, fmt.Sprintf(format, args...))
}

func runf(run int, format string, args ...interface{}) {
	fmt.Fprintf(mon, "RUN %d %s\n", run, strings.ReplaceAll(fmt.Sprintf(format, args...), "\n", " "))
}

var modes = map[string]func(fs *flag.FlagSet, args []string){}

func main() {
	debug.SetGCPercent(-1) // addresses are never reused within a process
	if len(os.Args) < 2 {
		fmt.Fprintln(os.Stderr, "usage: conc <mode> flags…")
		os.Exit(2)
	}
	f, ok := modes[os.Args[1]]
	if !ok {
		fmt.Fprintln(os.Stderr, "unknown mode")
		os.Exit(2)
	}
	out = bufio.NewWriterSize(os.Stdout, 1<<20)
	defer out.Flush()
	fs := flag.NewFlagSet(os.Args[1], flag.ExitOnError)
	f(fs, os.Args[2:])
	if mon != nil {
		mon.Flush()
	}
}

type commonFlags struct {
	seed  *int64
	runs  *int
	first *int
	only  *int
	monp  *string
	kind  *string
}

func addCommon(fs *flag.FlagSet) *commonFlags {
	return &commonFlags{
		seed:  fs.Int64("seed", 1, "PRNG seed"),
		runs:  fs.Int("runs", 100, "number of runs"),
		first: fs.Int("first", 0, "index of the first run (sharding)"),
		only:  fs.Int("only", -1, "replay exactly this run index"),
		monp:  fs.String("mon", "", "file for monitor verdicts"),
		kind:  fs.String("kind", "mix", "program family"),
	}
}

func (c *commonFlags) open() {
	if *c.monp != "" {
		f, err := os.Create(*c.monp)
		if err != nil {
			panic(err)
		}
		mon = bufio.NewWriterSize(f, 1<<20)
	} else {
		mon = bufio.NewWriter(os.Stderr)
	}
	seed = *c.seed
}

// runRange iterates the run indices of this invocation with a per-run PRNG (so that -only k replays run k exactly)
func (c *commonFlags) runRange(f func(run int, rng *rand.Rand)) {
	lo, hi := *c.first, *c.first+*c.runs
	if *c.only >= 0 {
		lo, hi = *c.only, *c.only+1
	}
	for r := lo; r < hi; r++ {
		f(r, rand.New(rand.NewSource(seed*1000003+int64(r))))
		// the collector is off WITHIN a run (an address must not be reused while the acceptor's address map of that run is alive);
		// between runs nothing of the finished run is referenced any more and the acceptor starts a fresh map at the next reset line
		if (r-lo)%512 == 511 {
			runtime.GC()
		}
	}
}
