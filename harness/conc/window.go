package main

// Mode `window`: the bare exported cbreaker.SlidingWindowCounter under the token scheduler, for step-level trace acceptance against
// the full-stack Lean model Garr.Breaker.Fine (acceptor `fine`, lean/Driver/FineAcc.lean) and for the C10 monitors below.
//
// Layers: b (window: cur load / CAS, snapshot store / load), q (reservoir queue) and k (scripted ticker) YIELD and are LOGGED; layer a
// (bucket adders) does neither: bucket.add / success() / failure() execute inside the scheduler slot of the yielding access that
// precedes them (the model's "executed together with the access that precedes them"). So a roller can be preempted between casCurrent
// and reservoir.Offer, inside Offer, and trimAndSum's traversal interleaves with the other threads' queue steps.
//
// Trace (stdout): reset fine <window> <interval> <t0> | inv <tid> succ|fail|count | tick <tid> <v> | ev … | ret <tid> nil|<s>/<f> | end
//
// Programs (-kind fine = a seeded mix of the three; rounds | frozen | parked select one): rounds of concurrent reports whose scripted
// ticker readings are equal / advancing / stepping back / mixed relative to the current bucket, each round followed by a quiescent solo
// probe that rolls (at a small distance, exactly one window after an existing bucket, or far away so that everything expires);
// `frozen`: one reporter - preferably a roller, preferably between its casCurrent and the link of reservoir.Offer - is never scheduled
// again; `parked`: the same thread is merely delayed until a later round (or the very end) and then finishes among the reporters there.
//
// Monitors (tag C10; independent of the Lean model). Every report has a scripted reading r; the timestamp of the bucket it lands in
// depends on the schedule, so a static analysis of its round yields the set cands(r) of possible timestamps:
// PC = {c0} ∪ {readings r' of the round with r' >= c0+interval} are the timestamps `cur` can have during the round (c0 = timestamp
// of the current bucket when the round starts, known exactly because the preceding probe was solo); cands(r) = {c ∈ PC : c <= r <
// c+interval} (same interval) ∪ {r} if r is before or beyond the interval of some c ∈ PC (instant bucket, next bucket).
//
//	(i)   every count returned by a roll (reading T) is <= the reports INVOKED before the roll returned whose bucket may have a
//	      timestamp >= T-window (max cands): nothing invented, nothing counted twice;
//	(ii)  a solo probe rolls, and its count lies between the reports RETURNED before it whose bucket certainly is inside the window
//	      (min cands >= T-window; reports possibly held by a frozen / parked thread excepted) and the reports that may be inside;
//	      the probe's own report is excluded, as the code does. In a quiescent run with unambiguous attribution (the common case,
//	      counted as `exact`) the two bounds coincide: the count is exactly the reports so far in intervals within the window,
//	      including back-step and CAS-loser reports;
//	(iii) Count() returns the object returned by the roll that returned last (rolls return in the order of their snapshot.Store, the
//	      store being the last access of the call), or EventCountZero before any roll; any other object must be explained by a roll
//	      that was still inside its call and returns that very object later.

import (
	"flag"
	"fmt"
	"math/rand"
	"sort"
	"strings"
	"time"

	"garrshim/vsched"
	"github.com/valyala/fastrand"
	cbreaker "go.linecorp.com/garr/circuit-breaker"
)

// scripted ticker: the reading of a call is fixed by the program (per thread: the reading of its running operation); every reading
// is a scheduling point (layer k) and is logged
type wticker struct {
	t0  int64
	cur map[int]int64
}

func (t *wticker) Tick() int64 {
	if !vsched.Active() {
		return t.t0 // the constructor's reading
	}
	if vsched.LayerOn("k") {
		vsched.Point()
	}
	tid := vsched.Tid()
	v := t.cur[tid]
	vsched.Logf("tick %d %d\n", tid, v)
	return v
}

type wop struct {
	kind  string // succ | fail | count
	tick  int64
	cands []int64 // possible timestamps of the bucket this report lands in (sorted)
	probe bool
}

type wthread struct {
	ops   []wop
	phase int
}

func (t wthread) String() string {
	var s []string
	for _, o := range t.ops {
		switch {
		case o.kind == "count":
			s = append(s, "count")
		case o.probe:
			s = append(s, fmt.Sprintf("probe:%s@%d", o.kind, o.tick))
		default:
			s = append(s, fmt.Sprintf("%s@%d", o.kind, o.tick))
		}
	}
	return fmt.Sprintf("ph%d:%s", t.phase, strings.Join(s, ","))
}

type wrep struct {
	tid      int
	succ     bool
	op       *wop
	inv, ret int // logical clock; ret == 0: pending
}

func candsOf(r int64, pc []int64, interval int64) []int64 {
	set := map[int64]bool{}
	for _, c := range pc {
		if c <= r && r < c+interval {
			set[c] = true
		} else {
			set[r] = true
		}
	}
	var out []int64
	for c := range set {
		out = append(out, c)
	}
	sort.Slice(out, func(i, j int) bool { return out[i] < out[j] })
	return out
}

func addCand(cs []int64, r int64) []int64 {
	for _, c := range cs {
		if c == r {
			return cs
		}
	}
	out := append(append([]int64{}, cs...), r)
	sort.Slice(out, func(i, j int) bool { return out[i] < out[j] })
	return out
}

type wprog struct {
	ths      []wthread
	rounds   [][]int // thread indices of the concurrent phase of each round
	lastPh   int
	special  int // thread frozen / parked (-1: none)
	at       int // … after this many of its own scheduling points
	resumeAt int // parked: phase in which it continues (0: frozen for ever)
}

func genWindowProgram(rng *rand.Rand, sub string, window, interval, t0 int64) *wprog {
	p := &wprog{special: -1}
	c0 := t0
	ph := 1
	known := []int64{t0} // timestamps buckets may carry (targets for probes exactly one window later)
	nr := 2 + rng.Intn(3)
	type roundInfo struct{ c0 int64 }
	var rinfo []roundInfo
	for round := 0; round < nr; round++ {
		style := rng.Intn(6)
		var v int64
		switch rng.Intn(5) {
		case 0:
			v = c0 - 1 - int64(rng.Intn(int(window+interval)+1)) // behind the current bucket
		case 1:
			v = c0 + int64(rng.Intn(int(interval))) // inside its interval
		case 2:
			v = c0 + interval + int64(rng.Intn(2)) // just beyond
		case 3:
			v = c0 + window + int64(rng.Intn(int(interval)+1)) // a window later
		default:
			v = c0 + int64(rng.Intn(int(2*interval)+1))
		}
		adv := v
		reading := func() int64 {
			switch style {
			case 0, 1: // equal
				return v
			case 2: // advancing
				adv += int64(rng.Intn(int(interval) + 1))
				return adv
			case 3: // stepping back: each reading at or before the previous one
				adv -= int64(rng.Intn(int(interval) + 2))
				return adv
			case 4: // around the boundary of the current interval
				return c0 + interval - 1 + int64(rng.Intn(3)) - int64(rng.Intn(2))*interval
			default: // anything near the window
				return c0 - window - interval - 1 + int64(rng.Intn(int(2*(window+interval))+3))
			}
		}
		nth := 2 + rng.Intn(3)
		var idx []int
		var readings []int64
		for k := 0; k < nth; k++ {
			var ops []wop
			for n := 1 + rng.Intn(2); n > 0; n-- {
				if rng.Intn(8) == 0 {
					ops = append(ops, wop{kind: "count"})
					continue
				}
				r := reading()
				readings = append(readings, r)
				ops = append(ops, wop{kind: []string{"succ", "fail"}[rng.Intn(2)], tick: r})
			}
			idx = append(idx, len(p.ths))
			p.ths = append(p.ths, wthread{ops: ops, phase: ph})
		}
		p.rounds = append(p.rounds, idx)
		rinfo = append(rinfo, roundInfo{c0})
		ph++
		pc := []int64{c0}
		maxv := c0
		for _, r := range readings {
			if r >= c0+interval {
				pc = append(pc, r)
			}
			if r > maxv {
				maxv = r
			}
		}
		for _, i := range idx {
			for k := range p.ths[i].ops {
				if o := &p.ths[i].ops[k]; o.kind != "count" {
					o.cands = candsOf(o.tick, pc, interval)
				}
			}
		}
		known = append(known, readings...)
		// the quiescent solo probe: beyond the interval of whatever bucket is current now
		T := maxv + interval + int64(rng.Intn(3))
		switch rng.Intn(4) {
		case 0: // exactly one window after an existing bucket (the boundary of the expiry test)
			var opts []int64
			for _, k := range known {
				if k+window >= maxv+interval {
					opts = append(opts, k+window)
				}
			}
			if len(opts) > 0 {
				T = opts[rng.Intn(len(opts))]
			}
		case 1: // far away: everything expires
			T = maxv + window + interval + int64(rng.Intn(3))
		}
		var ops []wop
		if rng.Intn(2) == 0 {
			ops = append(ops, wop{kind: "count"})
		}
		ops = append(ops, wop{kind: []string{"succ", "fail"}[rng.Intn(2)], tick: T, cands: []int64{T}, probe: true})
		if rng.Intn(2) == 0 {
			ops = append(ops, wop{kind: "count"})
		}
		p.ths = append(p.ths, wthread{ops: ops, phase: ph})
		ph++
		known = append(known, T)
		c0 = T
	}
	p.lastPh = ph
	if sub == "frozen" || sub == "parked" {
		// the thread: preferably one whose first operation rolls
		ri := rng.Intn(len(p.rounds))
		var rollers []int
		for _, i := range p.rounds[ri] {
			if o := p.ths[i].ops[0]; o.kind != "count" && o.tick >= rinfo[ri].c0+interval {
				rollers = append(rollers, i)
			}
		}
		if len(rollers) > 0 && rng.Intn(4) > 0 {
			p.special = rollers[rng.Intn(len(rollers))]
			// own scheduling points of a roll: 1 gate, 2 ticker, 3 cur load, 4 casCurrent, 5.. Offer (tail load, next load, link CAS, tail CAS), Iterator() …
			p.at = 4 + rng.Intn(5)
			if rng.Intn(4) == 0 {
				p.at = 4 + rng.Intn(30)
			}
		} else {
			p.special = p.rounds[ri][rng.Intn(len(p.rounds[ri]))]
			p.at = 1 + rng.Intn(30)
		}
		if sub == "parked" {
			if ri+1 < len(p.rounds) && rng.Intn(3) > 0 {
				rj := ri + 1 + rng.Intn(len(p.rounds)-ri-1)
				p.resumeAt = p.ths[p.rounds[rj][0]].phase
			} else {
				p.resumeAt = p.lastPh // alone, after everything else
			}
		}
		// whatever the thread does after the delay happens behind the current bucket of that time: instant buckets
		for k := range p.ths[p.special].ops {
			if o := &p.ths[p.special].ops[k]; o.kind != "count" {
				o.cands = addCand(o.cands, o.tick)
			}
		}
	}
	return p
}

func cntStr(c *cbreaker.EventCount) string {
	if c == nil {
		return "nil"
	}
	return fmt.Sprintf("%d/%d", c.Success(), c.Failure())
}

func runWindow(fs *flag.FlagSet, args []string) {
	cf := addCommon(fs)
	adders := fs.Bool("adders", false, "the bucket adders (layers a, r) yield too: a reporter can be preempted between reading the current bucket and adding to it (monitors only, no acceptor)")
	fs.Parse(args)
	cf.open()
	cf.runRange(func(run int, rng *rand.Rand) {
		clock = 0
		fastrand.Next = func() uint32 { return probeEdges[rng.Intn(len(probeEdges))] }
		sub := *cf.kind
		if sub != "rounds" && sub != "frozen" && sub != "parked" {
			sub = []string{"rounds", "rounds", "rounds", "frozen", "parked", "parked"}[rng.Intn(6)]
		}
		if *adders {
			// a thread stalled for ever (or for rounds) INSIDE a striped adder can hold its cellsBusy spin lock: an updater whose probe
			// keeps hitting an empty slot then waits for it (the adders are not claimed to be lock-free; C07 is about the queue)
			sub = "rounds"
		}
		interval := int64(1 + rng.Intn(6))
		window := interval * int64(1+rng.Intn(4))
		switch rng.Intn(6) {
		case 0:
			window++
		case 1:
			if window > 1 {
				window--
			}
		}
		t0 := []int64{1000, 1000, 7, 0, -1, -5000, -(1 << 40), 1 << 50, -1000000, 3}[rng.Intn(10)]
		tk := &wticker{t0: t0, cur: map[int]int64{}}
		sw, err := cbreaker.NewSlidingWindowCounter(tk, time.Duration(window), time.Duration(interval))
		if err != nil {
			panic(err)
		}
		p := genWindowProgram(rng, sub, window, interval, t0)
		fmt.Fprintf(out, "reset fine %d %d %d\n", window, interval, t0)
		s := newSched(rng, len(p.ths))
		var desc []string
		for i, th := range p.ths {
			s.phase[i] = th.phase
			desc = append(desc, fmt.Sprintf("t%d=%s", i, th))
		}
		if p.special >= 0 && p.resumeAt == 0 {
			s.freezeAt[p.special] = p.at
		}
		parked := false
		pick := func(runnable []int, step int) int {
			if p.special >= 0 && p.resumeAt > 0 && !parked && s.own[p.special] >= p.at {
				parked = true
				s.phase[p.special] = p.resumeAt // delayed: continues with the threads of that phase
			}
			return s.pick(runnable, step)
		}

		// ---- monitor state (one logical thread runs at a time: no locking needed)
		var reps []*wrep
		var lastRoll *cbreaker.EventCount
		msg, pan := "", ""
		fail := func(format string, a ...interface{}) {
			if msg == "" {
				msg = "C10 " + fmt.Sprintf(format, a...)
			}
		}
		nroll, nprobe, nexact, ncount, npend := 0, 0, 0, 0, 0
		type earlyCount struct {
			c    *cbreaker.EventCount
			last string
			tid  int
		}
		var early []earlyCount // Count() results still to be explained by a roll that returns later
		inWin := func(ts []int64, limit int64, all bool) bool {
			if all {
				return ts[0] >= limit
			}
			return ts[len(ts)-1] >= limit
		}
		body := func(tid int, th wthread) func() {
			return func() {
				defer func() {
					if x := recover(); x != nil && pan == "" {
						pan = fmt.Sprintf("panic in thread %d: %v", tid, x)
					}
				}()
				for k := range th.ops {
					op := &th.ops[k]
					vsched.Point() // gate: the thread is between operations
					if op.kind == "count" {
						vsched.Logf("inv %d count\n", tid)
						c := sw.Count()
						vsched.Logf("ret %d %s\n", tid, cntStr(c))
						ncount++
						if (lastRoll == nil && c != cbreaker.EventCountZero) || (lastRoll != nil && c != lastRoll) {
							// not the count of the roll that returned last: acceptable only as the count a roll that is still inside its call has
							// already stored (in the unchanged code snapshot.Store is the last access of the call, so this does not happen)
							early = append(early, earlyCount{c, cntStr(lastRoll), tid})
						}
						continue
					}
					tk.cur[tid] = op.tick
					clock++
					me := &wrep{tid: tid, succ: op.kind == "succ", op: op, inv: clock}
					// calls pending at this invocation (a solo probe: exactly the frozen / parked thread's call, if any)
					var pending []*wrep
					for _, x := range reps {
						if x.ret == 0 {
							pending = append(pending, x)
						}
					}
					reps = append(reps, me)
					vsched.Logf("inv %d %s\n", tid, op.kind)
					var c *cbreaker.EventCount
					if me.succ {
						c = sw.OnSuccess()
					} else {
						c = sw.OnFailure()
					}
					vsched.Logf("ret %d %s\n", tid, cntStr(c))
					clock++
					me.ret = clock
					if c == nil {
						if op.probe {
							fail("the solo report at tick %d, beyond the interval of every bucket that can be current, did not roll", op.tick)
						}
						continue
					}
					nroll++
					lastRoll = c
					for i := 0; i < len(early); i++ {
						if early[i].c == c {
							early = append(early[:i], early[i+1:]...)
							i--
						}
					}
					limit := op.tick - window
					// (i) upper bound: reports invoked so far whose bucket may lie inside the window
					var sMax, fMax int64
					for _, x := range reps {
						if x == me && op.probe {
							continue // a solo roller's own report sits in the new current bucket, which nobody can have archived
						}
						if inWin(x.op.cands, limit, false) {
							if x.succ {
								sMax++
							} else {
								fMax++
							}
						}
					}
					if c.Success() > sMax || c.Failure() > fMax || c.Success() < 0 || c.Failure() < 0 {
						fail("roll at tick %d (window %d) reports %s; at most %d/%d reports invoked so far can lie in intervals within the window", op.tick, window, cntStr(c), sMax, fMax)
					}
					if !op.probe {
						continue
					}
					// (ii) solo probe: everything returned so far that certainly lies inside the window, unless a pending call may hold it
					nprobe++
					if len(pending) > 0 {
						npend++ // a probe overtaking a frozen / parked call
					}
					var sMin, fMin int64
					for _, x := range reps {
						if x == me || x.ret == 0 || x.ret > me.inv || !inWin(x.op.cands, limit, true) {
							continue
						}
						held := false
						for _, m := range pending {
							for _, cd := range x.op.cands {
								if m.op.tick >= cd+interval {
									held = true // m may have swapped that bucket out and not yet archived it
								}
							}
						}
						if held {
							continue
						}
						if x.succ {
							sMin++
						} else {
							fMin++
						}
					}
					if c.Success() < sMin || c.Failure() < fMin {
						fail("solo roll at tick %d (window %d) reports %s although %d/%d completed reports lie in intervals within the window and nobody can be holding their buckets (at most %d/%d)",
							op.tick, window, cntStr(c), sMin, fMin, sMax, fMax)
					}
					if sMin == sMax && fMin == fMax {
						nexact++
					}
				}
			}
		}
		var bodies []func()
		for i, th := range p.ths {
			bodies = append(bodies, body(i, th))
		}
		runf(run, "family=fine/%s adders=%v window=%d interval=%d t0=%d stick=%d special=%d@%d->ph%d %s", sub, *adders, window, interval, t0, s.stick, p.special, p.at, p.resumeAt, strings.Join(desc, " "))
		layers := map[string]bool{"b": true, "q": true, "k": true} // a (adders) and r (their random probes): no scheduling point, no log line
		if *adders {
			layers["a"], layers["r"] = true, true
		}
		res := vsched.Run(out, layers, bodies, 400000, pick)
		fmt.Fprintf(out, "end\n")
		if len(early) > 0 {
			e := early[0]
			fail("Count() of thread %d returned %s (%p): neither the count stored by the roll that had returned last (%s; before any roll: the zero count object) nor the count of a roll that returned later",
				e.tid, cntStr(e.c), e.c, e.last)
		}
		if res.Budget || res.Deadlock {
			fail("run did not terminate (budget=%v deadlock=%v)", res.Budget, res.Deadlock)
		}
		if p.special >= 0 {
			for i := range p.ths {
				if !res.Done[i] && !(i == p.special && p.resumeAt == 0) {
					fail("thread %d did not complete although only thread %d is frozen", i, p.special)
					break
				}
			}
		}
		if pan != "" {
			monf(run, "FAIL %s", pan) // untagged: every check that runs this program reports it
		}
		if msg != "" {
			monf(run, "FAIL %s", msg)
		} else if pan == "" {
			monf(run, "ok steps=%d threads=%d reports=%d rolls=%d probes=%d exact=%d overtaking=%d counts=%d", res.Steps, len(p.ths), len(reps), nroll, nprobe, nexact, npend, ncount)
		}
	})
}

func init() { modes["window"] = runWindow }
