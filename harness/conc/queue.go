package main

import (
	"flag"
	"fmt"
	"math/rand"
	"sort"
	"strconv"
	"strings"

	"garrshim/vsched"
	"go.linecorp.com/garr/queue"
)

type qop struct {
	kind    string // offer poll peek isempty size iter miter final
	v       int
	removes []bool // iter: Remove decision after the k-th Next
	maxNext int
	late bool // iter: Remove() of the last element only after the traversal has ended (a second HasNext() first)
	// calls at the edges of the iterator protocol (iter; `over` also on final):
	rem0 bool // Remove() before any Next(): nothing to remove
	dbl  bool // every scripted Remove() is followed by a second Remove(): the second one has nothing to remove
	over int  // Next() this many times after HasNext() returned false: nil, nothing changes
}

type qthread struct {
	ops   []qop
	phase int
}

func (t qthread) String() string {
	var s []string
	for _, o := range t.ops {
		switch o.kind {
		case "offer":
			s = append(s, fmt.Sprintf("offer(%d)", o.v))
		case "iter":
			r := ""
			for _, b := range o.removes {
				if b {
					r += "R"
				} else {
					r += "-"
				}
			}
			if o.rem0 {
				r = "0" + r
			}
			if o.dbl {
				r += "+dbl"
			}
			if o.over > 0 {
				r += fmt.Sprintf("+over%d", o.over)
			}
			s = append(s, fmt.Sprintf("iter[%s]", r))
		case "final":
			if o.over > 0 {
				s = append(s, fmt.Sprintf("final+over%d", o.over))
			} else {
				s = append(s, "final")
			}
		default:
			s = append(s, o.kind)
		}
	}
	return fmt.Sprintf("ph%d:%s", t.phase, strings.Join(s, ","))
}

type travRec struct {
	tid        int
	vals       []int
	removed    []int // values on which Remove was called, with invocation time
	removedAt  []int
	start, end int
	complete   bool
}

type qrun struct {
	cd         *codec
	sequential bool // one goroutine only: the history is sequential (the witness search is linear, Size is exact)
	mutex      bool
	q          queue.Queue
	s          *sched // own[tid] = scheduling points thread tid has passed (every atomic / lock operation of an active layer is one)
	tag        string // property the iterator-protocol monitors report under: C15 in the sequential family, C13 otherwise
	edge       string // first failure of an edge-of-protocol call (exhausted Next, Remove with nothing to remove, mutex Iterator)
	panic      string // first panic of a logical thread (recovered): a violation, never a silent crash
	h          history
	travs      []*travRec
	drained    []int // final drain (quiescent phase)
	final      struct {
		size1, size2 int
		empty1       bool
		iter         []int
		done         bool
	}
}

// ---- value palette: the queues store interface{} values; tokens (ints) are mapped to Go values of different shapes so that
// element handling does not depend on what an element is. Palette 0: plain ints. Palette 1: ints, strings, pointers, structs,
// arrays, floats, empty structs. Palette 2: ints plus a few typed-nil values (non-nil interfaces whose data word is nil:
// nil pointers of two types, a nil map, a nil channel, a nil func) - each stands for exactly one token of the run.
type tnil0 struct{ _ int }
type tnil1 struct{ _ [2]int }
type boxed struct{ tok int }
type emptyTok struct{}

type codec struct {
	pal   int
	nilOf map[int]int // token -> typed-nil kind
	tokOf [5]int      // typed-nil kind -> token (-1: unused)
	empty int         // the token represented by emptyTok{} (-1: unused)
}

func newCodec(pal int) *codec {
	return &codec{pal: pal, nilOf: map[int]int{}, tokOf: [5]int{-1, -1, -1, -1, -1}, empty: -1}
}

func typedNil(k int) interface{} {
	switch k {
	case 0:
		return (*tnil0)(nil)
	case 1:
		return (*tnil1)(nil)
	case 2:
		return map[int]int(nil)
	case 3:
		return (chan int)(nil)
	default:
		return (func())(nil)
	}
}

func (c *codec) enc(v int) interface{} {
	switch c.pal {
	case 1:
		switch v % 7 {
		case 1:
			return fmt.Sprintf("s%d", v)
		case 2:
			return &boxed{v}
		case 3:
			return boxed{v}
		case 4:
			return [1]int{v}
		case 5:
			return float64(v) + 0.5
		case 6:
			if c.empty < 0 || c.empty == v {
				c.empty = v
				return emptyTok{}
			}
		}
	case 2:
		if k, ok := c.nilOf[v]; ok {
			return typedNil(k)
		}
		if v%3 == 1 {
			for k := range c.tokOf {
				if c.tokOf[k] < 0 {
					c.tokOf[k], c.nilOf[v] = v, k
					return typedNil(k)
				}
			}
		}
	}
	return v
}

func (c *codec) dec(x interface{}) int {
	switch y := x.(type) {
	case int:
		return y
	case string:
		n, _ := strconv.Atoi(y[1:])
		return n
	case *boxed:
		return y.tok
	case boxed:
		return y.tok
	case [1]int:
		return y[0]
	case float64:
		return int(y)
	case emptyTok:
		return c.empty
	case *tnil0:
		return c.tokOf[0]
	case *tnil1:
		return c.tokOf[1]
	case map[int]int:
		return c.tokOf[2]
	case chan int:
		return c.tokOf[3]
	case func():
		return c.tokOf[4]
	}
	return -12345 // a value that was never offered
}

func (r *qrun) resStr(x interface{}) string {
	if x == nil {
		return "nil"
	}
	return fmt.Sprintf("v%d", r.cd.dec(x))
}

func (r *qrun) edgeFail(format string, args ...interface{}) {
	if r.edge == "" {
		r.edge = fmt.Sprintf(format, args...)
	}
}

// noopRemove: Remove() when the iterator has nothing to remove (no Next yet, or the element last returned was already removed by
// this iterator). The model takes it from idleIt with lastRet = none: no shared-memory step, returns. History kind "remove0" is not an
// operation of the FIFO specification, so the linearizability and accounting monitors demand that it had NO effect on the queue.
func (r *qrun) noopRemove(tid int, it queue.Iterator, why string) {
	clock++
	o := &opRec{tid: tid, kind: "remove0", arg: -1, inv: clock}
	r.h.ops = append(r.h.ops, o)
	vsched.Logf("inv %d remove\n", tid)
	n0 := r.s.own[tid]
	it.Remove()
	if d := r.s.own[tid] - n0; d != 0 {
		r.edgeFail("%s iterator Remove() %s performed %d shared-memory operation(s); there is no element it may remove", r.tag, why, d)
	}
	r.h.end(o, "unit")
}

// exhaustedNext: Next() after HasNext() returned false must return nil and touch nothing.
func (r *qrun) exhaustedNext(tid int, it queue.Iterator) {
	o := r.h.begin(tid, "next", -1)
	n0 := r.s.own[tid]
	x := it.Next()
	d := r.s.own[tid] - n0
	r.h.end(o, r.resStr(x))
	if x != nil {
		r.edgeFail("%s Next() after HasNext()==false returned %v, not nil", r.tag, x)
	} else if d != 0 {
		r.edgeFail("%s Next() after HasNext()==false performed %d shared-memory operation(s)", r.tag, d)
	}
}

// mutexIterator: "Iterator not supported. MutexLinkedQueue not support iterator." (queue/mutexLinkedQueue.go): the call hands out no
// iterator, takes no lock (the regenerated bracket structure of C19 says so as well) and leaves the queue alone. The lock-level model has no
// such operation, so nothing is sent to the acceptor: any lock event during the call is rejected there as an event of an idle thread.
func (r *qrun) mutexIterator(tid int) {
	clock++
	o := &opRec{tid: tid, kind: "miter", arg: -1, inv: clock}
	r.h.ops = append(r.h.ops, o)
	n0 := r.s.own[tid]
	it := r.q.Iterator()
	d := r.s.own[tid] - n0
	clock++
	o.ret, o.res = clock, fmt.Sprintf("%T", it)
	if it != nil {
		r.edgeFail("MutexLinkedQueue.Iterator() is documented as not supported but returned a non-nil %T", it)
	} else if d != 0 {
		r.edgeFail("MutexLinkedQueue.Iterator() performed %d lock operation(s)", d)
	}
}

func (r *qrun) body(tid int, th qthread, mutex bool) func() {
	return func() {
		cur := "start"
		defer func() {
			if p := recover(); p != nil && r.panic == "" {
				r.panic = fmt.Sprintf("panic in thread %d during %s: %v", tid, cur, p)
			}
		}()
		for _, op := range th.ops {
			vsched.Point() // gate: the thread is between operations
			cur = op.kind
			switch op.kind {
			case "offer":
				o := r.h.begin(tid, "offer", op.v)
				r.q.Offer(r.cd.enc(op.v))
				r.h.end(o, "unit")
			case "poll":
				o := r.h.begin(tid, "poll", -1)
				x := r.q.Poll()
				r.h.end(o, r.resStr(x))
			case "peek":
				o := r.h.begin(tid, "peek", -1)
				x := r.q.Peek()
				r.h.end(o, r.resStr(x))
			case "isempty":
				o := r.h.begin(tid, "isempty", -1)
				b := r.q.IsEmpty()
				r.h.end(o, fmt.Sprint(b))
			case "size":
				o := r.h.begin(tid, "size", -1)
				n := r.q.Size()
				r.h.end(o, fmt.Sprintf("n%d", n))
			case "iter":
				tr := &travRec{tid: tid}
				r.travs = append(r.travs, tr)
				o := r.h.begin(tid, "iter", -1)
				tr.start = o.inv
				it := r.q.Iterator()
				r.h.end(o, "unit")
				if op.rem0 {
					cur = "iterator Remove() before any Next()"
					r.noopRemove(tid, it, "before any Next()")
				}
				k := 0
				for k < op.maxNext {
					cur = "iterator HasNext()/Next()"
					o = r.h.begin(tid, "hasnext", -1)
					hn := it.HasNext()
					r.h.end(o, fmt.Sprint(hn))
					if !hn {
						tr.complete = true
						break
					}
					o = r.h.begin(tid, "next", -1)
					x := it.Next()
					r.h.end(o, r.resStr(x))
					if x != nil {
						tr.vals = append(tr.vals, r.cd.dec(x))
					} else {
						tr.vals = append(tr.vals, -1)
					}
					if k < len(op.removes) && op.removes[k] && x != nil {
						o = r.h.begin(tid, "remove", r.cd.dec(x))
						tr.removed = append(tr.removed, r.cd.dec(x))
						tr.removedAt = append(tr.removedAt, o.inv)
						cur = "iterator Remove()"
						it.Remove()
						r.h.end(o, "unit")
						if op.dbl {
							cur = "second iterator Remove() in a row"
							r.noopRemove(tid, it, "called a second time in a row")
						}
					}
					k++
				}
				if tr.complete && op.late && len(tr.vals) > 0 && tr.vals[len(tr.vals)-1] >= 0 &&
					(len(tr.removed) == 0 || tr.removed[len(tr.removed)-1] != tr.vals[len(tr.vals)-1]) {
					// the traversal is over (HasNext() == false); only now the client removes the element it got last - a legal use: "Remove
					// deletes exactly the element last returned by Next". Other goroutines (or this one) may have made iterators meanwhile.
					cur = "HasNext() on the exhausted iterator"
					o = r.h.begin(tid, "hasnext", -1)
					hn := it.HasNext()
					r.h.end(o, fmt.Sprint(hn))
					if hn {
						r.edgeFail("%s HasNext() returned true after it had returned false (no Next() in between)", r.tag)
					}
					last := tr.vals[len(tr.vals)-1]
					o = r.h.begin(tid, "remove", last)
					tr.removed = append(tr.removed, last)
					tr.removedAt = append(tr.removedAt, o.inv)
					cur = "iterator Remove() after the traversal has ended"
					it.Remove()
					r.h.end(o, "unit")
				}
				if tr.complete {
					cur = "Next() on the exhausted iterator"
					for j := 0; j < op.over; j++ {
						r.exhaustedNext(tid, it)
					}
				}
				clock++
				tr.end = clock
				vsched.Logf("inv %d drop\n", tid)
			case "miter":
				r.mutexIterator(tid)
			case "final":
				// quiescent observations (C15): Size, IsEmpty, a full iteration, a drain, Size again
				o := r.h.begin(tid, "size", -1)
				n := r.q.Size()
				r.h.end(o, fmt.Sprintf("n%d", n))
				r.final.size1 = int(n)
				o = r.h.begin(tid, "isempty", -1)
				b := r.q.IsEmpty()
				r.h.end(o, fmt.Sprint(b))
				r.final.empty1 = b
				if !mutex {
					o = r.h.begin(tid, "iter", -1)
					it := r.q.Iterator()
					r.h.end(o, "unit")
					for {
						o = r.h.begin(tid, "hasnext", -1)
						hn := it.HasNext()
						r.h.end(o, fmt.Sprint(hn))
						if !hn {
							break
						}
						o = r.h.begin(tid, "next", -1)
						x := it.Next()
						r.h.end(o, r.resStr(x))
						if x != nil {
							r.final.iter = append(r.final.iter, r.cd.dec(x))
						}
					}
					for j := 0; j < op.over; j++ {
						r.exhaustedNext(tid, it)
					}
					vsched.Logf("inv %d drop\n", tid)
				} else if op.over > 0 {
					r.mutexIterator(tid)
				}
				for {
					o = r.h.begin(tid, "poll", -1)
					x := r.q.Poll()
					r.h.end(o, r.resStr(x))
					if x == nil {
						break
					}
					r.drained = append(r.drained, r.cd.dec(x))
				}
				o = r.h.begin(tid, "size", -1)
				n = r.q.Size()
				r.h.end(o, fmt.Sprintf("n%d", n))
				r.final.size2 = int(n)
				r.final.done = true
			}
		}
	}
}

// genQueueProgram: family ∈ lin (offer/poll/peek/isempty), iter (single producer + iterators + consumers), mix, seq (one thread)
func genQueueProgram(rng *rand.Rand, family string, mutex bool) (ths []qthread, singleProducer bool) {
	next := 1
	fresh := func() int { v := next; next++; return v }
	pre := rng.Intn(5)
	if pre > 0 {
		var ops []qop
		for i := 0; i < pre; i++ {
			ops = append(ops, qop{kind: "offer", v: fresh()})
		}
		if family != "iter" && rng.Intn(3) == 0 {
			ops = append(ops, qop{kind: "poll"})
		}
		ths = append(ths, qthread{ops: ops, phase: 0})
	}
	iterOp := func() qop {
		rm := make([]bool, 8)
		for i := range rm {
			rm[i] = rng.Intn(3) == 0
		}
		op := qop{kind: "iter", removes: rm, maxNext: 1 + rng.Intn(8)}
		// edges of the iterator protocol, each in about a quarter of the traversals
		op.rem0 = rng.Intn(4) == 0
		op.dbl = rng.Intn(4) == 0
		op.late = rng.Intn(3) == 0
		if rng.Intn(4) == 0 {
			op.over = 1 + rng.Intn(2)
		}
		return op
	}
	switch family {
	case "stale":
		// three to five operations that all take their first snapshots (tail / head / first node) of the same queue state and then
		// complete one after the other, each on a stale snapshot (the scheduler parks every thread after a few own steps)
		nth := 3 + rng.Intn(3)
		for t := 0; t < nth; t++ {
			var ops []qop
			for k := 1 + rng.Intn(2); k > 0; k-- {
				kinds := []string{"offer", "offer", "offer", "offer", "poll", "poll", "peek", "isempty", "size", "iter"}
				kd := kinds[rng.Intn(len(kinds))]
				switch kd {
				case "offer":
					ops = append(ops, qop{kind: "offer", v: fresh()})
				case "iter":
					ops = append(ops, iterOp())
				default:
					ops = append(ops, qop{kind: kd})
				}
			}
			ths = append(ths, qthread{ops: ops, phase: 1})
		}
	case "lag":
		// a producer frozen inside Offer (between linking its node and swinging the tail) while consumers drain past the
		// lagging tail; later producers must still complete (C07)
		ths = nil
		var pre []qop
		for i := rng.Intn(3); i > 0; i-- {
			pre = append(pre, qop{kind: "offer", v: fresh()}, qop{kind: "poll"})
		}
		for i := 1 + rng.Intn(3); i > 0; i-- {
			pre = append(pre, qop{kind: "offer", v: fresh()})
		}
		ths = append(ths, qthread{ops: pre, phase: 0})
		ths = append(ths, qthread{ops: []qop{{kind: "offer", v: fresh()}, {kind: "offer", v: fresh()}}, phase: 1}) // to be frozen
		var polls []qop
		for i := 2 + rng.Intn(4); i > 0; i-- {
			polls = append(polls, qop{kind: "poll"})
		}
		ths = append(ths, qthread{ops: polls, phase: 1})
		ths = append(ths, qthread{ops: []qop{{kind: "offer", v: fresh()}, {kind: "poll"}, {kind: "offer", v: fresh()}}, phase: 1})
	case "iter":
		singleProducer = true
		var ops []qop
		for i := rng.Intn(4); i > 0; i-- {
			ops = append(ops, qop{kind: "offer", v: fresh()})
		}
		if len(ops) > 0 {
			ths = append(ths, qthread{ops: ops, phase: 1})
		}
		for i := 1 + rng.Intn(2); i > 0; i-- {
			ths = append(ths, qthread{ops: []qop{iterOp()}, phase: 1})
		}
		for i := rng.Intn(3); i > 0; i-- {
			var c []qop
			for k := 1 + rng.Intn(3); k > 0; k-- {
				c = append(c, qop{kind: "poll"})
			}
			ths = append(ths, qthread{ops: c, phase: 1})
		}
	case "big":
		// scale: one goroutine, hundreds of elements, long runs of removed nodes (at the head, in the interior), a buffer that has to
		// wrap or grow. Thresholds hidden in traversal budgets, hop counters or internal capacities (64, 128, 256, 1024) are crossed here;
		// the history is sequential, so it is judged by the exact FIFO-list reference, and the trace by the acceptor.
		n := []int{70, 130, 140, 260, 300, 300, 520, 1100}[rng.Intn(8)]
		if !mutex && n > 300 {
			n = []int{70, 130, 140, 260, 270}[rng.Intn(5)] // (the step-level acceptor is quadratic in the number of nodes)
		}
		var ops []qop
		for i := 0; i < n; i++ {
			ops = append(ops, qop{kind: "offer", v: fresh()})
		}
		block := func(skip, k int) qop {
			rm := make([]bool, skip+k)
			for i := skip; i < skip+k; i++ {
				rm[i] = true
			}
			return qop{kind: "iter", removes: rm, maxNext: n + 5}
		}
		ks := []int{63, 64, 65, 127, 128, 129, 130, 255, 256, 257, 300, n - 1, n}
		k := ks[rng.Intn(len(ks))]
		pat := rng.Intn(4)
		if mutex && pat < 2 {
			pat = 2 + rng.Intn(2)
		}
		switch pat {
		case 0: // dead prefix left by an iterator, then the operations that walk from the head
			if k > n {
				k = n
			}
			ops = append(ops, block(0, k))
		case 1: // dead run in the interior
			skip := []int{1, 5, 60}[rng.Intn(3)]
			if skip+k > n {
				k = n - skip
			}
			ops = append(ops, block(skip, k))
		case 2: // consume a little, then keep producing: an array-backed buffer must wrap and grow without reordering
			if rng.Intn(2) == 0 {
				// start below a power-of-two capacity, consume, then cross 256 / 512 / 1024 with the live region not at index 0
				if k0 := []int{60, 100, 200, 250}[rng.Intn(4)]; k0 < len(ops) {
					ops = ops[:k0]
				}
				n = len(ops)
			}
			for i := []int{1, 3, n / 2}[rng.Intn(3)]; i > 0; i-- {
				ops = append(ops, qop{kind: "poll"})
			}
			for i := []int{2, 40, 300, 500, 1000}[rng.Intn(5)]; i > 0; i-- {
				ops = append(ops, qop{kind: "offer", v: fresh()})
			}
		default: // a long random history
			for i := 0; i < 2*n; i++ {
				switch rng.Intn(5) {
				case 0, 1:
					ops = append(ops, qop{kind: "offer", v: fresh()})
				case 2, 3:
					ops = append(ops, qop{kind: "poll"})
				default:
					ops = append(ops, qop{kind: []string{"peek", "size", "isempty"}[rng.Intn(3)]})
				}
			}
		}
		// observations in the order in which they are most fragile: a fresh traversal first, or the head-walkers first
		tail := []qop{{kind: "isempty"}, {kind: "size"}, {kind: "peek"}}
		if !mutex {
			full := qop{kind: "iter", removes: nil, maxNext: 2*n + 400}
			if rng.Intn(2) == 0 {
				tail = append([]qop{full}, tail...)
			} else {
				tail = append(tail, full)
			}
		}
		ops = append(ops, tail...)
		for i := 0; i < 3; i++ {
			ops = append(ops, qop{kind: "poll"})
		}
		ops = append(ops, qop{kind: "size"})
		ths = append(ths, qthread{ops: ops, phase: 1})
	case "mseq":
		// the mutex queue from one goroutine (C15: both implementations behave like a plain FIFO list)
		var ops []qop
		for k := 1 + rng.Intn(12); k > 0; k-- {
			switch rng.Intn(9) {
			case 0, 1, 2:
				ops = append(ops, qop{kind: "offer", v: fresh()})
			case 3, 4:
				ops = append(ops, qop{kind: "poll"})
			case 5:
				ops = append(ops, qop{kind: "peek"})
			case 6, 7:
				ops = append(ops, qop{kind: []string{"size", "isempty"}[rng.Intn(2)]})
			default:
				ops = append(ops, qop{kind: "miter"})
			}
		}
		ths = append(ths, qthread{ops: ops, phase: 1})
	case "seq":
		var ops []qop
		for k := 1 + rng.Intn(12); k > 0; k-- {
			switch rng.Intn(8) {
			case 0, 1, 2:
				ops = append(ops, qop{kind: "offer", v: fresh()})
			case 3, 4:
				ops = append(ops, qop{kind: "poll"})
			case 5:
				ops = append(ops, qop{kind: "peek"})
			case 6:
				ops = append(ops, qop{kind: []string{"size", "isempty"}[rng.Intn(2)]})
			default:
				ops = append(ops, iterOp())
			}
		}
		ths = append(ths, qthread{ops: ops, phase: 1})
	default:
		nth := 2 + rng.Intn(3)
		for t := 0; t < nth; t++ {
			var ops []qop
			for k := 1 + rng.Intn(4); k > 0; k-- {
				kinds := []string{"offer", "offer", "poll", "poll", "peek", "isempty"}
				if family == "mlin" {
					kinds = append(kinds, "size", "size", "isempty", "miter")
				}
				if family == "mix" {
					kinds = append(kinds, "size", "iter", "offer", "poll")
				}
				kd := kinds[rng.Intn(len(kinds))]
				switch kd {
				case "offer":
					ops = append(ops, qop{kind: "offer", v: fresh()})
				case "iter":
					ops = append(ops, iterOp())
				default:
					ops = append(ops, qop{kind: kd})
				}
			}
			ths = append(ths, qthread{ops: ops, phase: 1})
		}
	}
	// final quiescent phase; half of the time it also asks the exhausted iterator for more (mutex queue: asks for an iterator)
	ths = append(ths, qthread{ops: []qop{{kind: "final", over: rng.Intn(2)}}, phase: 2})
	return
}

// ---- monitors ------------------------------------------------------------------------------------------

// C01: the history of Offer/Poll/Peek/IsEmpty has a legal sequential FIFO witness respecting real-time order
// (iterator Remove is a "delete if present" operation of the extended spec; Size / HasNext / Next are not checked here)
func (r *qrun) monitorLin() string {
	var ops []linOp
	for _, o := range r.h.ops {
		o := o
		switch o.kind {
		case "offer":
			ops = append(ops, linOp{o.inv, o.ret, fmt.Sprintf("offer(%d)", o.arg), func(s string) (string, bool) { return qPush(s, o.arg), true }})
		case "poll":
			ops = append(ops, linOp{o.inv, o.ret, "poll=" + o.res, func(s string) (string, bool) {
				v, rest, ok := qHead(s)
				if o.ret == 0 { // pending: any outcome
					if ok {
						return rest, true
					}
					return s, true
				}
				if !ok {
					return s, o.res == "nil"
				}
				return rest, o.res == fmt.Sprintf("v%d", v)
			}})
		case "remove": // iterator Remove: delete the value last returned by Next, if still present
			ops = append(ops, linOp{o.inv, o.ret, fmt.Sprintf("remove(%d)", o.arg), func(s string) (string, bool) {
				tok := fmt.Sprintf("%d,", o.arg)
				if strings.HasPrefix(s, tok) {
					return s[len(tok):], true
				}
				if i := strings.Index(s, ","+tok); i >= 0 {
					return s[:i+1] + s[i+1+len(tok):], true
				}
				return s, true
			}})
		case "peek":
			if o.ret == 0 {
				continue
			}
			ops = append(ops, linOp{o.inv, o.ret, "peek=" + o.res, func(s string) (string, bool) {
				v, _, ok := qHead(s)
				if !ok {
					return s, o.res == "nil"
				}
				return s, o.res == fmt.Sprintf("v%d", v)
			}})
		case "isempty":
			if o.ret == 0 {
				continue
			}
			ops = append(ops, linOp{o.inv, o.ret, "isempty=" + o.res, func(s string) (string, bool) {
				return s, (s == "") == (o.res == "true")
			}})
		case "size":
			// on the mutex queue Size is as linearizable as the other operations (C19)
			if o.ret == 0 || !(r.mutex || r.sequential) {
				continue
			}
			ops = append(ops, linOp{o.inv, o.ret, "size=" + o.res, func(s string) (string, bool) {
				return s, o.res == fmt.Sprintf("n%d", strings.Count(s, ","))
			}})
		}
	}
	if r.sequential {
		// the operations do not overlap: the history is decided by one linear replay, whatever its length
		if ok, why := sequentialWitness(ops); !ok {
			return "C01 history has no legal sequential FIFO witness: " + why
		}
		return ""
	}
	if len(ops) > 26 {
		return ""
	}
	if ok, _ := linearizable(ops, ""); !ok {
		var d []string
		for _, o := range r.h.ops {
			d = append(d, fmt.Sprintf("t%d:%s(%d)=%s[%d,%d]", o.tid, o.kind, o.arg, o.res, o.inv, o.ret))
		}
		return "C01 history has no legal sequential FIFO witness: " + strings.Join(d, " ")
	}
	return ""
}

// C13: iterator monitors (single producer: queue order = numeric order)
func (r *qrun) monitorIter(offered map[int]bool, singleProducer bool) string {
	polledAt := map[int]int{}
	for _, o := range r.h.ops {
		if o.kind == "poll" && strings.HasPrefix(o.res, "v") {
			var v int
			fmt.Sscanf(o.res, "v%d", &v)
			if _, dup := polledAt[v]; dup {
				return fmt.Sprintf("C01 value %d polled twice", v)
			}
			polledAt[v] = o.inv
		}
	}
	removeCalled := map[int]int{}
	for _, tr := range r.travs {
		for i, v := range tr.removed {
			if _, ok := removeCalled[v]; !ok || tr.removedAt[i] < removeCalled[v] {
				removeCalled[v] = tr.removedAt[i]
			}
		}
	}
	for _, tr := range r.travs {
		last := 0
		in := map[int]bool{}
		for _, v := range tr.vals {
			if v == -1 {
				return fmt.Sprintf("C13 Next returned nil although HasNext was true: %v", tr.vals)
			}
			if !offered[v] {
				return fmt.Sprintf("C13 traversal returned %d which was never offered", v)
			}
			if in[v] {
				return fmt.Sprintf("C13 traversal returned %d twice: %v", v, tr.vals)
			}
			if singleProducer && v <= last {
				return fmt.Sprintf("C13 traversal not in queue order: %v", tr.vals)
			}
			in[v] = true
			last = v
		}
	}
	return ""
}

// accounting at quiescence: polled ⊎ effectively removed ⊎ drained = offered (completed offers), no duplicates
func (r *qrun) monitorAccounting(offered map[int]bool, completedOffer map[int]bool, singleProducer bool) string {
	if !r.final.done {
		return ""
	}
	seen := map[int]string{}
	for _, o := range r.h.ops {
		if o.kind == "poll" && strings.HasPrefix(o.res, "v") && o.tid != r.finalTid() {
			var v int
			fmt.Sscanf(o.res, "v%d", &v)
			if !offered[v] {
				return fmt.Sprintf("C01 polled %d which was never offered", v)
			}
			if seen[v] != "" {
				return fmt.Sprintf("C01 value %d polled twice", v)
			}
			seen[v] = "polled"
		}
	}
	removeCalled := map[int]bool{}
	for _, tr := range r.travs {
		for _, v := range tr.removed {
			removeCalled[v] = true
		}
	}
	for _, v := range r.drained {
		if !offered[v] {
			return fmt.Sprintf("C15 drained %d which was never offered", v)
		}
		if seen[v] != "" {
			return fmt.Sprintf("C13 value %d both %s and still queued", v, seen[v])
		}
		seen[v] = "queued"
		if removeCalled[v] {
			return fmt.Sprintf("C13 Remove was called on %d (returned by Next) but it is still queued", v)
		}
	}
	for v := range completedOffer {
		if seen[v] == "" && !removeCalled[v] {
			return fmt.Sprintf("C13 value %d lost: offered, but neither polled, removed nor queued", v)
		}
	}
	if singleProducer && !sort.IntsAreSorted(r.drained) {
		return fmt.Sprintf("C15 drain out of order: %v", r.drained)
	}
	// C15: Size, iteration and drain agree at quiescence
	if r.final.size1 != len(r.drained) {
		return fmt.Sprintf("C15 quiescent Size()=%d but drain returned %d elements %v", r.final.size1, len(r.drained), r.drained)
	}
	if r.final.empty1 != (len(r.drained) == 0) {
		return fmt.Sprintf("C15 quiescent IsEmpty()=%v but drain returned %v", r.final.empty1, r.drained)
	}
	if r.final.iter != nil || len(r.drained) > 0 {
		if _, isJDK := r.q.(*queue.JDKLinkedQueue); isJDK && fmt.Sprint(r.final.iter) != fmt.Sprint(r.drained) {
			return fmt.Sprintf("C15 quiescent iteration %v differs from drain %v", r.final.iter, r.drained)
		}
	}
	if r.final.size2 != 0 {
		return fmt.Sprintf("C15 Size()=%d after a complete drain", r.final.size2)
	}
	return ""
}

func (r *qrun) finalTid() int {
	for _, o := range r.h.ops {
		if o.kind == "size" {
			// the final thread is the one with the highest tid
		}
	}
	max := 0
	for _, o := range r.h.ops {
		if o.tid > max {
			max = o.tid
		}
	}
	return max
}

// completeness of traversals: every element that stayed queued for the whole traversal is returned
func (r *qrun) monitorComplete(pre int) string {
	polledAt := map[int]int{}
	for _, o := range r.h.ops {
		if o.kind == "poll" && strings.HasPrefix(o.res, "v") {
			var v int
			fmt.Sscanf(o.res, "v%d", &v)
			polledAt[v] = o.inv
		}
	}
	removedAt := map[int]int{}
	for _, tr := range r.travs {
		for i, v := range tr.removed {
			if t, ok := removedAt[v]; !ok || tr.removedAt[i] < t {
				removedAt[v] = tr.removedAt[i]
			}
		}
	}
	for _, tr := range r.travs {
		if !tr.complete {
			continue
		}
		in := map[int]bool{}
		for _, v := range tr.vals {
			in[v] = true
		}
		for v := 1; v <= pre; v++ {
			pa, p := polledAt[v]
			ra, rm := removedAt[v]
			stayed := (!p || pa > tr.end) && (!rm || ra > tr.end)
			if stayed && !in[v] {
				return fmt.Sprintf("C13 traversal %v (t%d) missed %d, which stayed queued for the whole traversal", tr.vals, tr.tid, v)
			}
		}
	}
	return ""
}

func runQueue(fs *flag.FlagSet, args []string) {
	cf := addCommon(fs)
	impl := fs.String("impl", "jdk", "jdk | mutex")
	freeze := fs.Bool("freeze", false, "freeze one thread at a random step (C07)")
	fs.Parse(args)
	cf.open()
	cf.runRange(func(run int, rng *rand.Rand) {
		clock = 0
		family := *cf.kind
		if family == "any" {
			family = []string{"lin", "iter", "mix", "seq"}[rng.Intn(4)]
			if *freeze && rng.Intn(3) == 0 {
				family = "lag"
			} else if !*freeze && rng.Intn(6) == 0 {
				family = "stale"
			}
		}
		if *impl == "mutex" {
			family = "mlin"
			if *cf.kind == "seq" {
				family = "mseq"
			}
			if *cf.kind == "big" {
				family = "big"
			}
		}
		ths, single := genQueueProgram(rng, family, *impl == "mutex")
		r := &qrun{mutex: *impl == "mutex", tag: "C13"}
		r.cd = newCodec([]int{0, 0, 1, 2}[rng.Intn(4)])
		r.sequential = len(ths) == 1 || family == "seq" || family == "big" // seq: one goroutine per phase, the phases do not overlap
		if family == "seq" {
			r.tag = "C15"
		}
		// a quarter of the runs make the queue through queue.NewQueue(Type), an eighth (lock-free queue) through queue.DefaultQueue();
		// documented in queue/pkg.go: "JDKLinkedQueueType indicates JDKLinkedQueue", "MutexLinkedQueueType indicates MutexLinkedQueue",
		// "DefaultQueue returns jdk concurrent, non blocking queue"
		via := rng.Intn(8)
		layers := map[string]bool{"q": true}
		call, want := "", ""
		if *impl == "mutex" {
			want = "*queue.MutexLinkedQueue"
			if via < 2 {
				r.q, call = queue.NewQueue(queue.MutexLinkedQueueType), "queue.NewQueue(queue.MutexLinkedQueueType)"
			} else {
				r.q, call = queue.NewMutexLinkedQueue(), "queue.NewMutexLinkedQueue()"
			}
			layers = map[string]bool{"m": true}
			fmt.Fprintf(out, "reset mqueue\n")
		} else {
			want = "*queue.JDKLinkedQueue"
			switch {
			case via < 2:
				r.q, call = queue.NewQueue(queue.JDKLinkedQueueType), "queue.NewQueue(queue.JDKLinkedQueueType)"
			case via == 2:
				r.q, call = queue.DefaultQueue(), "queue.DefaultQueue()"
			default:
				r.q, call = queue.NewJDKLinkedQueue(), "queue.NewJDKLinkedQueue()"
			}
			fmt.Fprintf(out, "reset queue\n")
		}
		var bodies []func()
		s := newSched(rng, len(ths))
		r.s = s
		var desc []string
		offered := map[int]bool{}
		pre := 0
		for i, th := range ths {
			bodies = append(bodies, r.body(i, th, *impl == "mutex"))
			s.phase[i] = th.phase
			desc = append(desc, fmt.Sprintf("t%d=%s", i, th))
			for _, o := range th.ops {
				if o.kind == "offer" {
					offered[o.v] = true
					if th.phase == 0 {
						pre++
					}
				}
			}
		}
		if len(ths) > 0 && ths[0].phase == 0 {
			for _, o := range ths[0].ops {
				if o.kind == "poll" {
					pre = 0
				}
			}
		}
		if family == "stale" {
			for i, th := range ths {
				if th.phase == 1 {
					s.parkAt[i] = 1 + rng.Intn(6)
				}
			}
		}
		frozenTid := -1
		if *freeze {
			// freeze a phase-1 thread after k of its own steps; the others then run solo one after the other
			var cands []int
			for i, th := range ths {
				if th.phase == 1 {
					cands = append(cands, i)
				}
			}
			if len(cands) > 0 {
				frozenTid = cands[rng.Intn(len(cands))]
				s.freezeAt[frozenTid] = rng.Intn(40)
				s.solo = rng.Intn(2) == 0
				if family == "lag" {
					delete(s.freezeAt, frozenTid)
					frozenTid = cands[0]
					s.freezeAt[frozenTid] = 1 + rng.Intn(14)
					s.solo = true
					// let the producer-to-be-frozen run first, alone, up to its freeze point
					s.phase[frozenTid] = 1
					for _, c := range cands[1:] {
						s.phase[c] = 2
					}
					s.phase[len(ths)-1] = 3
				}
			}
		}
		runf(run, "family=%s impl=%s ctor=%s values=%d freeze=%d@%d %s", family, *impl, call, r.cd.pal, frozenTid, s.freezeAt[frozenTid], strings.Join(desc, " "))
		if dyn := fmt.Sprintf("%T", r.q); dyn != want {
			// no property tag: whichever check runs this variant is not looking at the documented implementation
			monf(run, "FAIL %s returned %s; queue/pkg.go documents %s for this constructor", call, dyn, want)
			return
		}
		nodes := len(offered) + 1
		budget := 400 + 60*nodes*len(ths)*8
		vsched.PostOp = !*freeze && rng.Intn(4) == 0 // a quarter of the runs without a frozen thread: a yield after every atomic access as well
		res := vsched.Run(out, layers, bodies, budget, s.pick)
		vsched.PostOp = false
		fmt.Fprintf(out, "end\n")
		// ---- monitors
		msg := ""
		if res.Budget {
			msg = fmt.Sprintf("C07 step budget %d exhausted (livelock / unbounded operation)", budget)
		} else if res.Deadlock {
			msg = "C07 deadlock: no thread runnable"
			if *impl == "mutex" {
				msg = "C19 deadlock: no thread runnable"
			}
		}
		completed := map[int]bool{}
		for _, o := range r.h.ops {
			if o.kind == "offer" && o.ret != 0 {
				completed[o.arg] = true
			}
		}
		// every monitor reports on its own (a check only looks at the messages of its own property)
		var msgs []string
		add := func(m string) {
			if m != "" {
				msgs = append(msgs, m)
			}
		}
		add(r.panic) // untagged: reported by every check that runs this program
		add(r.edge)
		lin := r.monitorLin()
		add(lin)
		if lin != "" && r.sequential {
			// one goroutine: the history is sequential, so "no FIFO witness" means it is not the history of a plain FIFO list
			add(strings.Replace(lin, "C01 history has no legal sequential FIFO witness", "C15 the single-goroutine history is not that of a plain FIFO list", 1))
		}
		add(r.monitorIter(offered, single))
		if m := r.monitorSequentialTraversals(); m != "" {
			// weak consistency (C13) and plain sequential behaviour (C15) both promise it
			rest := strings.SplitN(m, " ", 2)[1]
			add("C13 " + rest)
			add("C15 " + rest)
		}
		if frozenTid < 0 {
			add(r.monitorAccounting(offered, completed, single))
		}
		if single && frozenTid < 0 {
			add(r.monitorComplete(pre))
		}
		if frozenTid >= 0 {
			// C07: with one thread frozen for ever, every other thread completed all its operations
			for i := range ths {
				if i != frozenTid && !res.Done[i] {
					add(fmt.Sprintf("C07 thread %d did not complete although only thread %d is frozen", i, frozenTid))
					break
				}
			}
		}
		if *impl == "mutex" {
			// the mutex queue is covered by C01 (both queues are linearizable FIFO queues) and by C19 (its whole API): report under both
			for _, m := range append([]string{}, msgs...) {
				if strings.HasPrefix(m, "C01 ") {
					msgs = append(msgs, strings.Replace(m, "C01 ", "C19 ", 1))
				}
			}
		}
		for i, m := range msgs {
			if i > 0 {
				monf(run, "FAIL %s", m)
			} else {
				msg = m
			}
		}
		if msg != "" {
			monf(run, "FAIL %s", msg)
		} else {
			monf(run, "ok steps=%d ops=%d threads=%d travs=%d", res.Steps, len(r.h.ops), len(ths), len(r.travs))
		}
	})
}

func init() { modes["queue"] = runQueue }

// monitorSequentialTraversals (sequential histories only): a traversal that runs with nothing interleaved returns exactly the elements
// queued when it started, in queue order (its own Removes only delete what it has already returned); if it was cut short by maxNext it
// returns a prefix. The list is replayed from the history in invocation order.
func (r *qrun) monitorSequentialTraversals() string {
	if !r.sequential {
		return ""
	}
	type evt struct {
		at   int
		kind string // offer poll remove trav
		v    int
		tr   *travRec
	}
	var evs []evt
	for _, o := range r.h.ops {
		switch o.kind {
		case "offer":
			evs = append(evs, evt{o.inv, "offer", o.arg, nil})
		case "poll":
			if strings.HasPrefix(o.res, "v") {
				var v int
				fmt.Sscanf(o.res, "v%d", &v)
				evs = append(evs, evt{o.inv, "del", v, nil})
			}
		case "remove":
			evs = append(evs, evt{o.inv, "del", o.arg, nil})
		}
	}
	for _, tr := range r.travs {
		evs = append(evs, evt{tr.start, "trav", 0, tr})
	}
	sort.SliceStable(evs, func(i, j int) bool { return evs[i].at < evs[j].at })
	var list []int
	for _, e := range evs {
		switch e.kind {
		case "offer":
			list = append(list, e.v)
		case "del":
			for i, x := range list {
				if x == e.v {
					list = append(list[:i:i], list[i+1:]...)
					break
				}
			}
		case "trav":
			tr := e.tr
			var got []int
			for _, v := range tr.vals {
				if v >= 0 {
					got = append(got, v)
				}
			}
			want := list
			if !tr.complete && len(got) <= len(want) {
				want = want[:len(got)]
			}
			if fmt.Sprint(got) != fmt.Sprint(want) {
				return fmt.Sprintf("%s a traversal with nothing interleaved returned %d element(s) %s, the queue held %d: %s", r.tag, len(got), abbreviate(fmt.Sprint(got)), len(list), abbreviate(fmt.Sprint(list)))
			}
		}
	}
	return ""
}
