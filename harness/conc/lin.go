package main

import (
	"fmt"
	"sort"
	"strings"
)

// Generic linearizability search (Wing–Gong with memoisation) over small histories.
// spec state is a string; apply returns the new state and whether the observed result is legal there.
type linOp struct {
	inv, ret int // ret == 0: pending (may take effect or not)
	name     string
	apply    func(state string) (string, bool)
}

func linearizable(ops []linOp, init string) (bool, string) {
	n := len(ops)
	if n > 30 {
		return true, "too long"
	}
	full := uint32(0)
	for i, o := range ops {
		if o.ret != 0 {
			full |= 1 << uint(i)
		}
	}
	seen := map[string]bool{}
	var order []string
	var dfs func(done uint32, state string) bool
	dfs = func(done uint32, state string) bool {
		if done&full == full {
			return true
		}
		key := fmt.Sprintf("%x|%s", done, state)
		if seen[key] {
			return false
		}
		seen[key] = true
		// minimal response time among unlinearized completed ops
		minRet := 1 << 30
		for i, o := range ops {
			if done&(1<<uint(i)) == 0 && o.ret != 0 && o.ret < minRet {
				minRet = o.ret
			}
		}
		for i, o := range ops {
			if done&(1<<uint(i)) != 0 || o.inv > minRet {
				continue
			}
			if ns, ok := o.apply(state); ok {
				order = append(order, o.name)
				if dfs(done|1<<uint(i), ns) {
					return true
				}
				order = order[:len(order)-1]
			}
		}
		return false
	}
	if dfs(0, init) {
		return true, strings.Join(order, " ")
	}
	return false, ""
}

// FIFO queue spec over a state string "v1,v2,…," (values in queue order)
func qPush(state string, v int) string { return state + fmt.Sprintf("%d,", v) }
func qHead(state string) (int, string, bool) {
	if state == "" {
		return 0, "", false
	}
	i := strings.IndexByte(state, ',')
	var v int
	fmt.Sscanf(state[:i], "%d", &v)
	return v, state[i+1:], true
}

// sequentialWitness: for a history whose operations do not overlap there is exactly one candidate order (invocation order); replaying
// it decides the history in linear time, whatever its length. Returns the index (in invocation order) of the first operation whose
// response the sequential specification does not allow.
func sequentialWitness(ops []linOp) (bool, string) {
	sorted := append([]linOp{}, ops...)
	sort.Slice(sorted, func(i, j int) bool { return sorted[i].inv < sorted[j].inv })
	state := ""
	for i, o := range sorted {
		if o.ret == 0 {
			continue
		}
		ns, ok := o.apply(state)
		if !ok {
			return false, fmt.Sprintf("operation #%d %s is not what a FIFO list holding [%s] answers", i+1, o.name, abbreviate(state))
		}
		state = ns
	}
	return true, ""
}

func abbreviate(s string) string {
	if len(s) > 120 {
		return s[:60] + " ... " + s[len(s)-40:]
	}
	return s
}
