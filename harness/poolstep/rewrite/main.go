// Command rewrite is the source-to-source instrumenter of the step-level tie for the worker pool. It is applied to the files of
// package workerpool in the scratch COPY of the working tree (never to the repository) after the import rewriting of sync and
// sync/atomic, and turns the language-level concurrency constructs into calls of garrshim/vchan:
//
//	chan T (field / variable / parameter)   *vchan.Chan[T]          make(chan T, n)     vchan.Make[T](n)
//	ch <- v                                 ch.Send(v)              <-ch                ch.Recv()
//	v, ok := <-ch                           v, ok := ch.Recv2()     close(ch)           ch.Close()
//	for x := range ch { … }                 for x, ok := ch.Recv2(); ok; x, ok = ch.Recv2() { … }
//	select { … }                            switch vchan.Select(hasDefault, cases…) { case 0: … }
//	go f(a)                                 vchan.Go("f", func() { f(a) })
//	time.NewTimer / *time.Timer / <-t.C     vchan.NewTimer / *vchan.Timer / t.RecvC()
//	context.WithCancel                      vchan.WithCancel        (case) <-ctx.Done() vchan.CaseDone(ctx)
//
// Channels listed with -real (struct field names) stay real channels because the exported API hands them out; a send on them becomes
// vchan.SendReal(ch, v). There is no type information: a channel expression is recognised by its shape (a selector of a channel-typed
// struct field, a local declared as a channel, x.Done(), timer.C). Whatever is not recognised, and every construct that would bring
// real time or an unshimmed channel into the package, makes the command FAIL (exit 1): the step-level correspondence is then broken.
package main

import (
	"bytes"
	"flag"
	"fmt"
	"go/ast"
	"go/format"
	"go/parser"
	"go/printer"
	"go/token"
	"os"
	"strings"
)

var (
	fset       = token.NewFileSet()
	realFields = map[string]bool{}
	shimFields = map[string]bool{}
	chanVars   = map[string]bool{}
	timerVars  = map[string]bool{}
	keep       = map[ast.Node]bool{} // nodes (chan types, make calls) of real channels: left alone
	nsel       int
	counts     = map[string]int{}
	curFile    string
)

func fail(n ast.Node, format string, args ...interface{}) {
	pos := ""
	if n != nil {
		pos = fset.Position(n.Pos()).String() + ": "
	}
	fmt.Fprintf(os.Stderr, "poolstep-rewrite: %s%s\n", pos, fmt.Sprintf(format, args...))
	os.Exit(1)
}

func src(n ast.Node) string {
	var b bytes.Buffer
	printer.Fprint(&b, fset, n)
	return b.String()
}

func sel(x ast.Expr, name string) *ast.SelectorExpr {
	return &ast.SelectorExpr{X: x, Sel: ast.NewIdent(name)}
}
func vch(name string) ast.Expr { return sel(ast.NewIdent("vchan"), name) }
func call(f ast.Expr, args ...ast.Expr) *ast.CallExpr {
	return &ast.CallExpr{Fun: f, Args: args}
}

func isPkgSel(e ast.Expr, pkg, name string) bool {
	s, ok := e.(*ast.SelectorExpr)
	if !ok {
		return false
	}
	id, ok := s.X.(*ast.Ident)
	return ok && id.Name == pkg && (name == "" || s.Sel.Name == name)
}

type kind int

const (
	kUnknown kind = iota
	kShim
	kReal
	kDone  // x.Done()
	kTimer // t.C
)

func classify(e ast.Expr) kind {
	switch x := e.(type) {
	case *ast.ParenExpr:
		return classify(x.X)
	case *ast.SelectorExpr:
		if x.Sel.Name == "C" {
			if id, ok := x.X.(*ast.Ident); ok && timerVars[id.Name] {
				return kTimer
			}
		}
		if shimFields[x.Sel.Name] {
			return kShim
		}
		if realFields[x.Sel.Name] {
			return kReal
		}
	case *ast.Ident:
		if chanVars[x.Name] {
			return kShim
		}
	case *ast.CallExpr:
		if s, ok := x.Fun.(*ast.SelectorExpr); ok && s.Sel.Name == "Done" && len(x.Args) == 0 {
			return kDone
		}
	}
	return kUnknown
}

// ---------------------------------------------------------------------------------------------- pre-pass: declarations

func prepass(f *ast.File) {
	ast.Inspect(f, func(n ast.Node) bool {
		switch x := n.(type) {
		case *ast.StructType:
			for _, fld := range x.Fields.List {
				if ct, ok := fld.Type.(*ast.ChanType); ok {
					for _, nm := range fld.Names {
						if realFields[nm.Name] {
							keep[ct] = true
						} else if ct.Dir == ast.SEND|ast.RECV {
							shimFields[nm.Name] = true
						} else {
							fail(fld, "directional channel field %s: not supported", nm.Name)
						}
					}
					if len(fld.Names) == 0 {
						fail(fld, "embedded channel type: not supported")
					}
				}
			}
		case *ast.FuncType:
			lists := []*ast.FieldList{x.Params, x.Results}
			for _, l := range lists {
				if l == nil {
					continue
				}
				for _, fld := range l.List {
					if ct, ok := fld.Type.(*ast.ChanType); ok {
						if ct.Dir != ast.SEND|ast.RECV {
							keep[ct] = true // a directional channel in a signature is a real channel of the exported API (Task.Result)
							continue
						}
						for _, nm := range fld.Names {
							chanVars[nm.Name] = true
						}
					}
					if st, ok := fld.Type.(*ast.StarExpr); ok && isPkgSel(st.X, "time", "Timer") {
						for _, nm := range fld.Names {
							timerVars[nm.Name] = true
						}
					}
				}
			}
		case *ast.ValueSpec:
			if ct, ok := x.Type.(*ast.ChanType); ok && ct.Dir == ast.SEND|ast.RECV {
				for _, nm := range x.Names {
					chanVars[nm.Name] = true
				}
			}
			if st, ok := x.Type.(*ast.StarExpr); ok && isPkgSel(st.X, "time", "Timer") {
				for _, nm := range x.Names {
					timerVars[nm.Name] = true
				}
			}
		case *ast.Field:
			if st, ok := x.Type.(*ast.StarExpr); ok && isPkgSel(st.X, "time", "Timer") {
				for _, nm := range x.Names {
					timerVars[nm.Name] = true
				}
			}
		case *ast.AssignStmt:
			if len(x.Lhs) == len(x.Rhs) {
				for i, r := range x.Rhs {
					c, ok := r.(*ast.CallExpr)
					if !ok {
						continue
					}
					id, isId := x.Lhs[i].(*ast.Ident)
					if isPkgSel(c.Fun, "time", "NewTimer") && isId {
						timerVars[id.Name] = true
					}
					if fn, ok := c.Fun.(*ast.Ident); ok && fn.Name == "make" && len(c.Args) > 0 {
						if ct, ok := c.Args[0].(*ast.ChanType); ok {
							if s, ok := x.Lhs[i].(*ast.SelectorExpr); ok && realFields[s.Sel.Name] {
								keep[c], keep[ct] = true, true
							} else if isId {
								chanVars[id.Name] = true
							}
						}
					}
				}
			}
		case *ast.KeyValueExpr:
			if k, ok := x.Key.(*ast.Ident); ok && realFields[k.Name] {
				if c, ok := x.Value.(*ast.CallExpr); ok {
					if fn, ok := c.Fun.(*ast.Ident); ok && fn.Name == "make" && len(c.Args) > 0 {
						if ct, ok := c.Args[0].(*ast.ChanType); ok {
							keep[c], keep[ct] = true, true
						}
					}
				}
			}
		}
		return true
	})
}

// ---------------------------------------------------------------------------------------------- expressions

var forbiddenTime = map[string]bool{"After": true, "AfterFunc": true, "NewTicker": true, "Tick": true, "Sleep": true, "Now": true, "Since": true, "Until": true, "Ticker": true}
var forbiddenCtx = map[string]bool{"WithTimeout": true, "WithDeadline": true, "WithTimeoutCause": true, "WithDeadlineCause": true, "AfterFunc": true, "WithCancelCause": true}

func exprs(l []ast.Expr) {
	for i := range l {
		l[i] = expr(l[i])
	}
}

func fieldList(l *ast.FieldList) {
	if l == nil {
		return
	}
	for _, f := range l.List {
		f.Type = expr(f.Type)
	}
}

func expr(e ast.Expr) ast.Expr {
	switch x := e.(type) {
	case nil:
		return nil
	case *ast.Ident, *ast.BasicLit:
		return e
	case *ast.ParenExpr:
		x.X = expr(x.X)
	case *ast.SelectorExpr:
		if isPkgSel(x, "time", "") && forbiddenTime[x.Sel.Name] {
			fail(x, "time.%s brings real time into the package: not supported by the step-level instrumentation", x.Sel.Name)
		}
		if isPkgSel(x, "context", "") && forbiddenCtx[x.Sel.Name] {
			fail(x, "context.%s: not supported by the step-level instrumentation", x.Sel.Name)
		}
		if isPkgSel(x, "time", "NewTimer") {
			counts["NewTimer"]++
			return vch("NewTimer")
		}
		if isPkgSel(x, "time", "Timer") {
			return vch("Timer")
		}
		if isPkgSel(x, "context", "WithCancel") {
			counts["WithCancel"]++
			return vch("WithCancel")
		}
		if x.Sel.Name == "C" && classify(x) == kTimer {
			fail(x, "timer channel %s used other than as `<-%s`: not supported", src(x), src(x))
		}
		x.X = expr(x.X)
	case *ast.StarExpr:
		x.X = expr(x.X)
	case *ast.UnaryExpr:
		if x.Op == token.ARROW {
			switch classify(x.X) {
			case kShim:
				counts["recv"]++
				return call(sel(expr(x.X), "Recv"))
			case kTimer:
				counts["trecv"]++
				return call(sel(expr(x.X.(*ast.SelectorExpr).X), "RecvC"))
			default:
				fail(x, "receive from %s: channel not recognised (only channel fields of the package, timer.C)", src(x.X))
			}
		}
		x.X = expr(x.X)
	case *ast.BinaryExpr:
		x.X, x.Y = expr(x.X), expr(x.Y)
	case *ast.KeyValueExpr:
		x.Key, x.Value = expr(x.Key), expr(x.Value)
	case *ast.CompositeLit:
		x.Type = expr(x.Type)
		exprs(x.Elts)
	case *ast.IndexExpr:
		x.X, x.Index = expr(x.X), expr(x.Index)
	case *ast.IndexListExpr:
		x.X = expr(x.X)
		exprs(x.Indices)
	case *ast.SliceExpr:
		x.X, x.Low, x.High, x.Max = expr(x.X), expr(x.Low), expr(x.High), expr(x.Max)
	case *ast.TypeAssertExpr:
		x.X, x.Type = expr(x.X), expr(x.Type)
	case *ast.Ellipsis:
		x.Elt = expr(x.Elt)
	case *ast.ArrayType:
		x.Len, x.Elt = expr(x.Len), expr(x.Elt)
	case *ast.MapType:
		x.Key, x.Value = expr(x.Key), expr(x.Value)
	case *ast.StructType:
		fieldList(x.Fields)
	case *ast.InterfaceType:
		fieldList(x.Methods)
	case *ast.FuncType:
		fieldList(x.TypeParams)
		fieldList(x.Params)
		fieldList(x.Results)
	case *ast.FuncLit:
		expr(x.Type)
		block(x.Body)
	case *ast.ChanType:
		if keep[x] {
			return x
		}
		if x.Dir != ast.SEND|ast.RECV {
			fail(x, "directional channel type outside a signature: not supported")
		}
		counts["chantype"]++
		return &ast.StarExpr{X: &ast.IndexExpr{X: vch("Chan"), Index: expr(x.Value)}}
	case *ast.CallExpr:
		if keep[x] {
			return x
		}
		if fn, ok := x.Fun.(*ast.Ident); ok {
			switch fn.Name {
			case "make":
				if ct, ok := x.Args[0].(*ast.ChanType); ok {
					if len(x.Args) != 2 {
						fail(x, "unbuffered channel: not supported by the step-level instrumentation")
					}
					counts["make"]++
					return call(&ast.IndexExpr{X: vch("Make"), Index: expr(ct.Value)}, expr(x.Args[1]))
				}
			case "close":
				if len(x.Args) == 1 {
					if classify(x.Args[0]) != kShim {
						fail(x, "close(%s): channel not recognised", src(x.Args[0]))
					}
					counts["close"]++
					return call(sel(expr(x.Args[0]), "Close"))
				}
			case "len", "cap":
				if len(x.Args) == 1 && classify(x.Args[0]) == kShim {
					return call(sel(expr(x.Args[0]), map[string]string{"len": "Len", "cap": "Cap"}[fn.Name]))
				}
			}
		}
		x.Fun = expr(x.Fun)
		exprs(x.Args)
	default:
		fail(e, "expression %T not known to the instrumenter", e)
	}
	return e
}

// ---------------------------------------------------------------------------------------------- statements

func block(b *ast.BlockStmt) {
	if b == nil {
		return
	}
	for i := range b.List {
		b.List[i] = stmt(b.List[i])
	}
}

func simpleArg(e ast.Expr) bool {
	switch x := e.(type) {
	case *ast.Ident, *ast.BasicLit:
		return true
	case *ast.SelectorExpr:
		return simpleArg(x.X)
	}
	return false
}

func stmt(s ast.Stmt) ast.Stmt {
	switch x := s.(type) {
	case nil:
		return nil
	case *ast.EmptyStmt, *ast.BranchStmt:
	case *ast.BlockStmt:
		block(x)
	case *ast.ExprStmt:
		x.X = expr(x.X)
	case *ast.IncDecStmt:
		x.X = expr(x.X)
	case *ast.DeclStmt:
		decl(x.Decl)
	case *ast.LabeledStmt:
		x.Stmt = stmt(x.Stmt)
	case *ast.ReturnStmt:
		exprs(x.Results)
	case *ast.DeferStmt:
		x.Call = expr(x.Call).(*ast.CallExpr)
	case *ast.IfStmt:
		x.Init, x.Cond, x.Else = stmt(x.Init), expr(x.Cond), stmt(x.Else)
		block(x.Body)
	case *ast.ForStmt:
		x.Init, x.Cond, x.Post = stmt(x.Init), expr(x.Cond), stmt(x.Post)
		block(x.Body)
	case *ast.SwitchStmt:
		x.Init, x.Tag = stmt(x.Init), expr(x.Tag)
		block(x.Body)
	case *ast.TypeSwitchStmt:
		x.Init, x.Assign = stmt(x.Init), stmt(x.Assign)
		block(x.Body)
	case *ast.CaseClause:
		exprs(x.List)
		for i := range x.Body {
			x.Body[i] = stmt(x.Body[i])
		}
	case *ast.AssignStmt:
		if len(x.Lhs) == 2 && len(x.Rhs) == 1 {
			if u, ok := x.Rhs[0].(*ast.UnaryExpr); ok && u.Op == token.ARROW {
				if classify(u.X) != kShim {
					fail(x, "receive from %s: channel not recognised", src(u.X))
				}
				counts["recv2"]++
				exprs(x.Lhs)
				x.Rhs[0] = call(sel(expr(u.X), "Recv2"))
				return x
			}
		}
		exprs(x.Lhs)
		exprs(x.Rhs)
	case *ast.SendStmt:
		switch classify(x.Chan) {
		case kShim:
			counts["send"]++
			return &ast.ExprStmt{X: call(sel(expr(x.Chan), "Send"), expr(x.Value))}
		case kReal:
			counts["sendreal"]++
			return &ast.ExprStmt{X: call(vch("SendReal"), expr(x.Chan), expr(x.Value))}
		default:
			fail(x, "send on %s: channel not recognised", src(x.Chan))
		}
	case *ast.GoStmt:
		name := "func"
		switch f := x.Call.Fun.(type) {
		case *ast.Ident:
			name = f.Name
		case *ast.SelectorExpr:
			name = f.Sel.Name
			if !simpleArg(f.X) {
				fail(x, "go statement: receiver expression too complex for the instrumenter")
			}
		case *ast.FuncLit:
		default:
			fail(x, "go statement: function expression not supported")
		}
		for _, a := range x.Call.Args {
			if !simpleArg(a) {
				fail(x, "go statement: argument %s would be evaluated later than in the original", src(a))
			}
		}
		counts["go"]++
		c := expr(x.Call).(*ast.CallExpr)
		return &ast.ExprStmt{X: call(vch("Go"), &ast.BasicLit{Kind: token.STRING, Value: fmt.Sprintf("%q", name)},
			&ast.FuncLit{Type: &ast.FuncType{Params: &ast.FieldList{}}, Body: &ast.BlockStmt{List: []ast.Stmt{&ast.ExprStmt{X: c}}}})}
	case *ast.RangeStmt:
		if classify(x.X) == kShim {
			if x.Value != nil {
				fail(x, "range over a channel with two variables")
			}
			counts["range"]++
			nsel++
			ok := ast.NewIdent(fmt.Sprintf("vok%d", nsel))
			key := x.Key
			if key == nil {
				key = ast.NewIdent("_")
			}
			tok := x.Tok
			if tok == token.ILLEGAL {
				tok = token.DEFINE
			}
			ch := expr(x.X)
			block(x.Body)
			mk := func(t token.Token) *ast.AssignStmt {
				return &ast.AssignStmt{Lhs: []ast.Expr{key, ok}, Tok: t, Rhs: []ast.Expr{call(sel(ch, "Recv2"))}}
			}
			if tok == token.ASSIGN { // `for x = range ch`: ok must be declared
				return &ast.BlockStmt{List: []ast.Stmt{
					&ast.DeclStmt{Decl: &ast.GenDecl{Tok: token.VAR, Specs: []ast.Spec{&ast.ValueSpec{Names: []*ast.Ident{ok}, Type: ast.NewIdent("bool")}}}},
					&ast.ForStmt{Init: mk(token.ASSIGN), Cond: ok, Post: mk(token.ASSIGN), Body: x.Body}}}
			}
			return &ast.ForStmt{Init: mk(token.DEFINE), Cond: ok, Post: mk(token.ASSIGN), Body: x.Body}
		}
		if k := classify(x.X); k != kUnknown {
			fail(x, "range over %s: not supported", src(x.X))
		}
		x.Key, x.Value, x.X = expr(x.Key), expr(x.Value), expr(x.X)
		block(x.Body)
	case *ast.SelectStmt:
		return selectStmt(x)
	default:
		fail(s, "statement %T not known to the instrumenter", s)
	}
	return s
}

func selectStmt(x *ast.SelectStmt) ast.Stmt {
	counts["select"]++
	nsel++
	id := nsel
	var pre []ast.Stmt
	var caseVars []ast.Expr
	sw := &ast.SwitchStmt{Body: &ast.BlockStmt{}}
	hasDefault := false
	k := 0
	for _, c := range x.Body.List {
		cc := c.(*ast.CommClause)
		var body []ast.Stmt
		if cc.Comm == nil {
			hasDefault = true
			for _, b := range cc.Body {
				body = append(body, stmt(b))
			}
			sw.Body.List = append(sw.Body.List, &ast.CaseClause{List: nil, Body: body})
			continue
		}
		cv := ast.NewIdent(fmt.Sprintf("vc%d_%d", id, k))
		var mk ast.Expr
		var recvAssign *ast.AssignStmt
		var recvX ast.Expr
		switch cm := cc.Comm.(type) {
		case *ast.SendStmt:
			if classify(cm.Chan) != kShim {
				fail(cm, "select: send on %s: channel not recognised", src(cm.Chan))
			}
			mk = call(vch("CaseSend"), expr(cm.Chan), expr(cm.Value))
		case *ast.ExprStmt:
			u, ok := cm.X.(*ast.UnaryExpr)
			if !ok || u.Op != token.ARROW {
				fail(cm, "select: communication clause not understood")
			}
			recvX = u.X
		case *ast.AssignStmt:
			u, ok := cm.Rhs[0].(*ast.UnaryExpr)
			if !ok || u.Op != token.ARROW || len(cm.Rhs) != 1 {
				fail(cm, "select: communication clause not understood")
			}
			recvX = u.X
			recvAssign = cm
		default:
			fail(cc, "select: communication clause not understood")
		}
		if recvX != nil {
			switch classify(recvX) {
			case kShim:
				mk = call(vch("CaseRecv"), expr(recvX))
				if recvAssign != nil {
					exprs(recvAssign.Lhs)
					rhs := []ast.Expr{sel(cv, "V")}
					if len(recvAssign.Lhs) == 2 {
						rhs = append(rhs, sel(cv, "Ok"))
					}
					body = append(body, &ast.AssignStmt{Lhs: recvAssign.Lhs, Tok: recvAssign.Tok, Rhs: rhs})
					if recvAssign.Tok == token.DEFINE { // a received value need not be used
						for _, l := range recvAssign.Lhs {
							if idn, ok := l.(*ast.Ident); ok && idn.Name != "_" {
								body = append(body, &ast.AssignStmt{Lhs: []ast.Expr{ast.NewIdent("_")}, Tok: token.ASSIGN, Rhs: []ast.Expr{ast.NewIdent(idn.Name)}})
							}
						}
					}
				}
			case kDone:
				if recvAssign != nil {
					fail(cc, "select: value received from Done()")
				}
				mk = call(vch("CaseDone"), expr(recvX.(*ast.CallExpr).Fun.(*ast.SelectorExpr).X))
			case kTimer:
				if recvAssign != nil {
					fail(cc, "select: value received from a timer channel: not supported")
				}
				mk = call(vch("CaseTimer"), expr(recvX.(*ast.SelectorExpr).X))
			default:
				fail(cc, "select: receive from %s: channel not recognised", src(recvX))
			}
		}
		pre = append(pre, &ast.AssignStmt{Lhs: []ast.Expr{cv}, Tok: token.DEFINE, Rhs: []ast.Expr{mk}})
		caseVars = append(caseVars, cv)
		for _, b := range cc.Body {
			body = append(body, stmt(b))
		}
		sw.Body.List = append(sw.Body.List, &ast.CaseClause{List: []ast.Expr{&ast.BasicLit{Kind: token.INT, Value: fmt.Sprint(k)}}, Body: body})
		k++
	}
	hd := "false"
	if hasDefault {
		hd = "true"
	}
	sw.Tag = call(vch("Select"), append([]ast.Expr{ast.NewIdent(hd)}, caseVars...)...)
	if k == 0 {
		fail(x, "select without communication clauses")
	}
	return &ast.BlockStmt{List: append(pre, sw)}
}

func decl(d ast.Decl) {
	switch x := d.(type) {
	case *ast.GenDecl:
		for _, sp := range x.Specs {
			switch s := sp.(type) {
			case *ast.TypeSpec:
				fieldList(s.TypeParams)
				s.Type = expr(s.Type)
			case *ast.ValueSpec:
				s.Type = expr(s.Type)
				exprs(s.Values)
			case *ast.ImportSpec:
			}
		}
	case *ast.FuncDecl:
		fieldList(x.Recv)
		expr(x.Type)
		block(x.Body)
	default:
		fail(d, "declaration %T not known to the instrumenter", d)
	}
}

// residual check: nothing of the concurrency constructs may be left (except the kept real channels)
func residual(f *ast.File) {
	ast.Inspect(f, func(n ast.Node) bool {
		switch x := n.(type) {
		case *ast.SendStmt, *ast.SelectStmt, *ast.GoStmt, *ast.CommClause:
			fail(n, "residual %T after rewriting", n)
		case *ast.UnaryExpr:
			if x.Op == token.ARROW {
				fail(n, "residual receive expression after rewriting")
			}
		case *ast.ChanType:
			if !keep[x] {
				fail(n, "residual channel type after rewriting")
			}
		}
		return true
	})
}

func main() {
	real := flag.String("real", "future", "comma-separated struct field names of channels that stay real")
	flag.Parse()
	for _, r := range strings.Split(*real, ",") {
		if r != "" {
			realFields[r] = true
		}
	}
	var files []*ast.File
	for _, p := range flag.Args() {
		f, err := parser.ParseFile(fset, p, nil, 0)
		if err != nil {
			fail(nil, "%v", err)
		}
		files = append(files, f)
	}
	for _, f := range files { // fields of the whole package first
		prepass(f)
	}
	for i, f := range files {
		curFile = flag.Args()[i]
		before := 0
		for _, v := range counts {
			before += v
		}
		for _, d := range f.Decls {
			decl(d)
		}
		residual(f)
		after := 0
		for _, v := range counts {
			after += v
		}
		imports := map[string]bool{}
		for _, im := range f.Imports {
			imports[strings.Trim(im.Path.Value, `"`)] = true
		}
		var b bytes.Buffer
		if err := format.Node(&b, fset, f); err != nil {
			fail(nil, "print %s: %v", curFile, err)
		}
		out := b.String()
		if after > before {
			// add the import; keep `time` / `context` used whatever the rewriting removed
			ix := strings.Index(out, "\nimport (")
			if ix < 0 {
				ix = strings.Index(out, "\npackage ")
				e := strings.Index(out[ix+1:], "\n") + ix + 1
				out = out[:e] + "\n\nimport vchan \"garrshim/vchan\"\n" + out[e:]
			} else {
				out = out[:ix+9] + "\n\tvchan \"garrshim/vchan\"" + out[ix+9:]
			}
		}
		if imports["time"] {
			out += "\nvar _ time.Duration\n"
		}
		if imports["context"] {
			out += "\nvar _ context.Context\n"
		}
		res, err := format.Source([]byte(out))
		if err != nil {
			fail(nil, "rewritten %s does not parse: %v", curFile, err)
		}
		if err := os.WriteFile(curFile, res, 0o644); err != nil {
			fail(nil, "%v", err)
		}
	}
	var ks []string
	for k, v := range counts {
		ks = append(ks, fmt.Sprintf("%s=%d", k, v))
	}
	fmt.Println("rewritten:", strings.Join(ks, " "))
}
