// Command poolstep: step-level trace generation for the worker pool. The instrumented copy of worker-pool (harness/poolstep/rewrite +
// import rewriting to garrshim/vatomic/p, garrshim/vsync) runs under the token scheduler; every synchronisation operation of pool.go is
// one scheduling point and one trace line on stdout, replayed by `garr_model poolstep` against Garr.Pool.step. The file given by -mon
// receives `RUN <run> <description>` and `MON <run> ok …` / `MON <run> FAIL <Cxx[,Cyy]> <reason>` from the Go-side monitors.
//
// Trace lines of the harness itself:
//
//	reset poolstep <nworker> <limit> <lifetime>      quiescent (nobody can run any more)      end
//	inv <tid> <Do|TryDo|Start|Stop> [<pool|own|never> <api>]        ret <tid> <unit|true|false>
//	env <tid> finish <u> | canceltask <u> | cancelparent | advance <d>
//	x <tid> start <u>        x <tid> end <u>          (the executor of task u was invoked / passed its gate)
package main

import (
	"bufio"
	"context"
	"errors"
	"flag"
	"fmt"
	"math/rand"
	"os"
	"runtime"
	"runtime/debug"
	"sort"
	"strings"
	"time"

	"garrshim/vchan"
	"garrshim/vsched"
	"garrshim/vsync"
	workerpool "go.linecorp.com/garr/worker-pool"
)

var errTask = errors.New("task context cancelled")

// ownCtx is a task's own cancellable context with an error of its own (so that the trace tells t.ctx.Err() from p.ctx.Err())
type ownCtx struct {
	done chan struct{}
	err  error
}

func (c *ownCtx) Deadline() (time.Time, bool)   { return time.Time{}, false }
func (c *ownCtx) Done() <-chan struct{}         { return c.done }
func (c *ownCtx) Err() error                    { return c.err }
func (c *ownCtx) Value(interface{}) interface{} { return nil }
func (c *ownCtx) cancel()                       { c.err = errTask; close(c.done) }

type taskRec struct {
	id        int
	ctxKind   string
	api       string
	try       bool
	own       *ownCtx
	task      *workerpool.Task
	exec      int
	released  bool
	cancelled bool
	returned  bool
	tryRes    bool
	callTid   int
}

type op struct {
	kind string // Do TryDo Start Stop
	api  string
	ctx  string
}

type run struct {
	idx      int
	rng      *rand.Rand
	nworker  int
	limit    int
	lifetime int
	auto     bool
	parent   bool
	final    bool
	scripts  [][]op
	envN     int
	stick    int

	p            *workerpool.Pool
	parentCancel context.CancelFunc
	parentDone   bool
	ready        bool
	tasks        []*taskRec
	byTask       map[*workerpool.Task]int
	byChan       map[uintptr]int
	cur          map[int]int // tid -> task id of its submission in flight
	running      int
	maxRunning   int
	idle         bool
	closerGo     bool
	envDone      bool
	envTid       int
	nclient      int
	workers      map[int]bool // spawned thread ids
	exited       map[int]bool
	closer       int // thread that closed the queue (-1 none)
	started      bool
	stopInvoked  bool
	stopDone     bool
	afterStop    bool
	inDo         map[int]bool
	fails        map[string]bool
	failMsgs     []string
	nops         map[string]int
	last         int
}

func (r *run) fail(tags string, format string, args ...interface{}) {
	m := tags + " " + fmt.Sprintf(format, args...)
	if !r.fails[m] {
		r.fails[m] = true
		r.failMsgs = append(r.failMsgs, m)
	}
}

func (r *run) describe() string {
	var sb strings.Builder
	fmt.Fprintf(&sb, "workers=%d limit=%d lifetime=%d auto=%v parent=%v finalStop=%v env=%d stick=%d", r.nworker, r.limit, r.lifetime, r.auto, r.parent, r.final, r.envN, r.stick)
	for i, s := range r.scripts {
		fmt.Fprintf(&sb, " | c%d:", i)
		for _, o := range s {
			if o.api != "" {
				fmt.Fprintf(&sb, " %s(%s)", o.api, o.ctx)
			} else {
				fmt.Fprintf(&sb, " %s", o.kind)
			}
		}
	}
	return sb.String()
}

func generate(idx int, rng *rand.Rand) *run {
	r := &run{idx: idx, rng: rng, byTask: map[*workerpool.Task]int{}, byChan: map[uintptr]int{}, cur: map[int]int{}, workers: map[int]bool{},
		exited: map[int]bool{}, closer: -1, inDo: map[int]bool{}, fails: map[string]bool{}, nops: map[string]int{}, last: -1}
	r.nworker = 1 + rng.Intn(2)
	r.limit = rng.Intn(3)
	r.lifetime = 1 + rng.Intn(3)
	r.auto = rng.Intn(100) < 65
	r.parent = rng.Intn(100) < 40
	r.final = rng.Intn(100) < 75
	r.envN = 1 + rng.Intn(10)
	r.stick = []int{0, 30, 60, 85}[rng.Intn(4)]
	nth := 2 + rng.Intn(3)
	submitHeavy := rng.Intn(3) == 0
	for i := 0; i < nth; i++ {
		n := 1 + rng.Intn(3)
		if i == 0 {
			n = rng.Intn(3)
		}
		if submitHeavy {
			n += 2
		}
		var s []op
		for j := 0; j < n; j++ {
			x := rng.Intn(100)
			var o op
			switch {
			case x < 45:
				o.kind = "Do"
				o.api = []string{"Do", "Do", "Execute", "ExecuteWithCtx"}[rng.Intn(4)]
			case x < 75:
				o.kind = "TryDo"
				o.api = []string{"TryDo", "TryDo", "TryExecute", "TryExecuteWithCtx"}[rng.Intn(4)]
			case x < 85:
				o.kind = "Start"
			default:
				o.kind = "Stop"
			}
			if o.api != "" {
				o.ctx = []string{"pool", "pool", "own", "own", "never"}[rng.Intn(5)]
				if o.api == "Execute" || o.api == "TryExecute" {
					o.ctx = "pool"
				}
			}
			s = append(s, o)
		}
		r.scripts = append(r.scripts, s)
	}
	r.nclient = nth
	r.envTid = nth
	return r
}

// ---------------------------------------------------------------------------------------------- naming of values in the trace

func (r *run) ident(v interface{}) string {
	switch x := v.(type) {
	case *workerpool.Task:
		if x == nil {
			return "nil"
		}
		if id, ok := r.byTask[x]; ok {
			return fmt.Sprint(id)
		}
		k := vchan.ChanKey(x.Result())
		id, ok := r.byChan[k]
		if !ok {
			id, ok = r.cur[vsched.Tid()]
			if !ok {
				return "?"
			}
		}
		r.byTask[x], r.byChan[k] = id, id
		if r.tasks[id].task == nil {
			r.tasks[id].task = x
		}
		return fmt.Sprint(id)
	case chan *workerpool.TaskResult:
		k := vchan.ChanKey(x)
		if id, ok := r.byChan[k]; ok {
			return fmt.Sprint(id)
		}
		id, ok := r.cur[vsched.Tid()]
		if !ok {
			return "?"
		}
		r.byChan[k] = id
		return fmt.Sprint(id)
	case *workerpool.TaskResult:
		switch {
		case x == nil:
			return "nil"
		case x.Err == nil:
			return fmt.Sprintf("val:%v", x.Result)
		case x.Err == errTask:
			return "taskerr"
		case x.Err == context.Canceled:
			return "canceled"
		}
		return "err?"
	}
	return "?"
}

// ---------------------------------------------------------------------------------------------- client operations

func (r *run) exec(rec *taskRec) func(context.Context) (interface{}, error) {
	return func(ctx context.Context) (interface{}, error) {
		tid := vsched.Tid()
		rec.exec++
		r.running++
		if r.running > r.maxRunning {
			r.maxRunning = r.running
		}
		if r.running > r.nworker+r.limit {
			r.fail("C11", "%d executors run at the same time (NumberWorker %d + ExpandableLimit %d)", r.running, r.nworker, r.limit)
		}
		if rec.exec > 1 {
			r.fail("C04", "task %d executed %d times", rec.id, rec.exec)
		}
		if r.afterStop {
			r.fail("C08", "the executor of task %d is invoked after the Stop that shut the pool down has returned", rec.id)
		}
		vsched.Logf("x %d start %d\n", tid, rec.id)
		vsched.BlockOn(func() bool { return rec.released })
		vsched.Logf("x %d end %d\n", tid, rec.id)
		r.running--
		return rec.id, nil
	}
}

func (r *run) doOp(o op) {
	tid := vsched.Tid()
	r.nops[o.kind]++
	switch o.kind {
	case "Start":
		vsched.Logf("inv %d Start\n", tid)
		r.p.Start()
		vsched.Logf("ret %d unit\n", tid)
		return
	case "Stop":
		vsched.Logf("inv %d Stop\n", tid)
		r.stopInvoked = true
		r.p.Stop()
		vsched.Logf("ret %d unit\n", tid)
		if st := r.p.VerifState(); st != 2 {
			r.fail("C08", "Stop returned but the pool is not stopped (state %d)", st)
		}
		if r.closer == tid {
			r.stopDone = true
			r.checkStopReturn()
		}
		return
	}
	rec := &taskRec{id: len(r.tasks), ctxKind: o.ctx, api: o.api, try: o.kind == "TryDo", callTid: tid}
	r.tasks = append(r.tasks, rec)
	r.cur[tid] = rec.id
	var ctx context.Context
	switch o.ctx {
	case "own":
		rec.own = &ownCtx{done: make(chan struct{})}
		ctx = rec.own
	case "never":
		ctx = context.Background()
	}
	vsched.Logf("inv %d %s %s %s\n", tid, o.kind, o.ctx, o.api)
	steps0, waits0 := vsched.Steps(tid), vsched.Waits(tid)
	ex := r.exec(rec)
	r.inDo[tid] = true
	switch o.api {
	case "Do":
		t := workerpool.NewTask(ctx, ex)
		rec.task = t
		r.byTask[t], r.byChan[vchan.ChanKey(t.Result())] = rec.id, rec.id
		r.p.Do(t)
	case "TryDo":
		t := workerpool.NewTask(ctx, ex)
		rec.task = t
		r.byTask[t], r.byChan[vchan.ChanKey(t.Result())] = rec.id, rec.id
		rec.tryRes = r.p.TryDo(t)
	case "Execute":
		rec.task = r.p.Execute(ex)
	case "ExecuteWithCtx":
		rec.task = r.p.ExecuteWithCtx(ctx, ex)
	case "TryExecute":
		rec.task, rec.tryRes = r.p.TryExecute(ex)
	case "TryExecuteWithCtx":
		rec.task, rec.tryRes = r.p.TryExecuteWithCtx(ctx, ex)
	}
	delete(r.inDo, tid)
	delete(r.cur, tid)
	rec.returned = true
	if rec.try {
		vsched.Logf("ret %d %v\n", tid, rec.tryRes)
		if d := vsched.Steps(tid) - steps0; d > 8 {
			r.fail("C17", "TryDo of task %d took %d steps of its own thread (bound 8)", rec.id, d)
		}
		if vsched.Waits(tid) != waits0 {
			r.fail("C17", "TryDo of task %d blocked", rec.id)
		}
	} else {
		vsched.Logf("ret %d unit\n", tid)
	}
	if q := r.p.VerifQueueLen(); q > 1 {
		r.fail("C17", "%d tasks buffered in the queue", q)
	}
}

// C08: the Stop that performed the shutdown has returned
func (r *run) checkStopReturn() {
	// (an expanded worker may still be between its wg.Done() and the decrement of `expanded`: it is alive but takes no task any more;
	// that every worker thread has exited is checked at the end of the run)
	r.afterStop = true
	if r.running != 0 {
		r.fail("C08", "Stop returned while %d executors are running", r.running)
	}
	for _, t := range r.tasks {
		if !t.returned || (t.try && !t.tryRes) {
			continue
		}
		if t.task != nil && len(t.task.Result()) != 1 {
			r.fail("C08,C12", "Stop returned but task %d (%s, submitted and returned before) has %d results, executed %d times", t.id, t.api, len(t.task.Result()), t.exec)
		}
	}
}

// ---------------------------------------------------------------------------------------------- environment

func (r *run) unreleased() *taskRec {
	for _, t := range r.tasks {
		if !t.released {
			return t
		}
	}
	return nil
}

func (r *run) timerDelta() int64 {
	var d int64
	for _, t := range vchan.Timers() {
		if t.Armed() && t.Deadline() > vchan.Now {
			if x := t.Deadline() - vchan.Now; d == 0 || x < d {
				d = x
			}
		}
	}
	return d
}

func (r *run) envBody() {
	tid := r.envTid
	vsched.BlockOn(func() bool { return r.ready })
	for i := 0; i < r.envN; i++ {
		vsched.Point()
		var cands []func()
		var rel, can []*taskRec
		for _, t := range r.tasks {
			if !t.released {
				rel = append(rel, t)
			}
			if t.own != nil && !t.cancelled {
				can = append(can, t)
			}
		}
		if len(rel) > 0 {
			f := func() {
				t := rel[r.rng.Intn(len(rel))]
				t.released = true
				vsched.Logf("env %d finish %d\n", tid, t.id)
			}
			cands = append(cands, f, f, f)
		}
		if len(can) > 0 {
			cands = append(cands, func() {
				t := can[r.rng.Intn(len(can))]
				t.cancelled = true
				t.own.cancel()
				vsched.Logf("env %d canceltask %d\n", tid, t.id)
			})
		}
		if r.parent && !r.parentDone && r.rng.Intn(3) == 0 {
			cands = append(cands, func() {
				r.parentDone = true
				r.parentCancel()
				vsched.Logf("env %d cancelparent\n", tid)
			})
		}
		cands = append(cands, func() {
			d := 1 + r.rng.Intn(r.lifetime)
			vchan.Now += int64(d)
			vsched.Logf("env %d advance %d\n", tid, d)
		})
		cands[r.rng.Intn(len(cands))]()
	}
	// drain: release every gate as soon as its task exists; when nothing else can run, let the timers expire, then (finalStop) let
	// thread 0 stop the pool
	for {
		vsched.BlockOn(func() bool { return r.unreleased() != nil || r.idle })
		if t := r.unreleased(); t != nil {
			t.released = true
			vsched.Logf("env %d finish %d\n", tid, t.id)
			continue
		}
		r.idle = false
		if d := r.timerDelta(); d > 0 {
			vchan.Now += d
			vsched.Logf("env %d advance %d\n", tid, d)
			continue
		}
		if r.final && !r.closerGo {
			r.closerGo = true
			continue
		}
		r.envDone = true
		return
	}
}

// ---------------------------------------------------------------------------------------------- one run

func (r *run) pick(runnable []int, step int) int {
	c := runnable[r.rng.Intn(len(runnable))]
	if r.last >= 0 && r.rng.Intn(100) < r.stick {
		for _, t := range runnable {
			if t == r.last {
				c = t
			}
		}
	}
	r.last = c
	return c
}

func (r *run) execute(out *bufio.Writer) (steps int) {
	vchan.Reset()
	vchan.Ident = r.ident
	vchan.Pick = func(n int) int { return r.rng.Intn(n) }
	vchan.Observe = func(kind string, tid, arg int) {
		switch kind {
		case "close":
			r.closer = tid
		case "go":
			r.workers[arg] = true
		case "exit":
			r.exited[tid] = true
		}
	}
	vsync.StepLevel = true
	vsched.CatchPanics = true
	vsched.OnIdle = func() bool {
		if !r.envDone && !r.idle {
			r.idle = true
			return true
		}
		return false
	}
	defer func() { vsched.OnIdle = nil }()
	var parentCtx context.Context
	if r.parent {
		parentCtx, r.parentCancel = context.WithCancel(context.Background())
	}
	bodies := make([]func(), r.nclient+1)
	for i := 0; i < r.nclient; i++ {
		i := i
		bodies[i] = func() {
			if i == 0 {
				vsched.Point()
				opt := workerpool.Option{NumberWorker: r.nworker, ExpandableLimit: int32(r.limit), ExpandedLifetime: time.Duration(r.lifetime), DisableAutoStart: !r.auto}
				if r.auto {
					vsched.Logf("inv 0 Start\n")
				}
				r.p = workerpool.NewPool(parentCtx, opt)
				if r.auto {
					vsched.Logf("ret 0 unit\n")
				}
				r.ready = true
			} else {
				vsched.BlockOn(func() bool { return r.ready })
			}
			for _, o := range r.scripts[i] {
				r.doOp(o)
			}
			if i == 0 && r.final {
				vsched.BlockOn(func() bool { return r.closerGo })
				r.doOp(op{kind: "Stop"})
			}
		}
	}
	bodies[r.envTid] = r.envBody
	fmt.Fprintf(out, "reset poolstep %d %d %d\n", r.nworker, r.limit, r.lifetime)
	res := vsched.Run(out, nil, bodies, 20000, r.pick)
	if !res.Budget && len(res.Panics) == 0 {
		// the run ended because no logical thread can run any more: the acceptor checks that the model's threads cannot run either
		fmt.Fprintf(out, "quiescent\n")
	}
	fmt.Fprintf(out, "end\n")
	r.judge(res)
	return res.Steps
}

// end-of-run monitors
func (r *run) judge(res vsched.Result) {
	for _, p := range res.Panics {
		r.fail("C12", "panic in a logical thread: %s", p)
	}
	if res.Budget {
		r.fail("C12", "step budget exhausted (livelock?)")
	}
	if len(res.Panics) > 0 || r.p == nil {
		return
	}
	// hangs: after releasing all gates and letting the timers expire every client call has returned, unless the pool was never
	// started nor stopped (a Do may then wait for a worker for ever)
	state := r.p.VerifState()
	for i := 0; i < r.nclient; i++ {
		if !res.Done[i] {
			if state == 0 && !r.stopInvoked && r.inDo[i] {
				continue
			}
			r.fail("C12", "client thread %d never returns (pool state %d, in submission: %v, Stop invoked: %v)", i, state, r.inDo[i], r.stopInvoked)
		}
	}
	if !res.Done[r.envTid] && !res.Budget {
		r.fail("C12", "environment thread did not finish")
	}
	if r.stopDone || (r.stopInvoked && state == 2) {
		for w := range r.workers {
			if !r.exited[w] && r.stopDone {
				r.fail("C08", "worker thread %d alive at the end although the shutting-down Stop returned", w)
			}
		}
	}
	if e := int(r.p.VerifExpanded()); e < 0 || e > r.limit {
		r.fail("C11", "expanded = %d at quiescence (limit %d)", e, r.limit)
	}
	if q := r.p.VerifQueueLen(); q > 1 {
		r.fail("C17", "%d tasks buffered in the queue", q)
	}
	queued := 0
	for _, t := range r.tasks {
		if t.exec > 1 {
			r.fail("C04", "task %d executed %d times", t.id, t.exec)
		}
		if !t.returned {
			if t.try {
				r.fail("C17,C12", "TryDo of task %d never returned", t.id)
			}
			continue
		}
		if t.task == nil {
			r.fail("C04", "task %d: %s returned a nil task", t.id, t.api)
			continue
		}
		n := len(t.task.Result())
		var first *workerpool.TaskResult
		if n > 0 {
			first = <-t.task.Result()
		}
		switch {
		case t.try && !t.tryRes:
			if t.exec != 0 {
				r.fail("C04,C17", "task %d: TryDo returned false but the task was executed", t.id)
			}
			if n == 1 && (first == nil || first.Err == nil) {
				r.fail("C04", "task %d: TryDo returned false, result without error", t.id)
			}
		case t.exec == 1:
			if n != 1 {
				r.fail("C04,C12", "task %d was executed but has %d results at the end", t.id, n)
			} else if first == nil || first.Err != nil || first.Result != t.id {
				r.fail("C04", "task %d was executed, wrong result %+v", t.id, first)
			}
		default: // accepted or refused, never executed
			if n == 1 {
				if first == nil || first.Err == nil {
					r.fail("C04", "task %d never executed but has a result without error", t.id)
				} else if first.Err != context.Canceled && first.Err != errTask {
					r.fail("C04", "task %d refused with a non-context error %v", t.id, first.Err)
				} else if first.Err == errTask && !t.cancelled {
					r.fail("C04", "task %d: task-context error although its context was never cancelled", t.id)
				}
			} else {
				queued++ // still in the queue: only possible while the pool has not been stopped (and nobody takes it: never started)
				if r.stopDone {
					r.fail("C04,C12", "task %d accepted, Stop completed, but it has no result and was not executed", t.id)
				} else if state == 1 && res.Done[r.envTid] {
					r.fail("C04,C12", "task %d accepted by a started pool, all gates released, but never executed", t.id)
				}
			}
		}
	}
	if queued > r.p.VerifQueueLen() && !r.stopDone {
		r.fail("C04", "%d submitted tasks have neither result nor execution but the queue holds %d", queued, r.p.VerifQueueLen())
	}
}

func main() {
	debug.SetGCPercent(-1)
	if len(os.Args) < 2 || os.Args[1] != "poolstep" {
		fmt.Fprintln(os.Stderr, "usage: poolstep poolstep -seed S -first K -runs N -mon FILE [-only K]")
		os.Exit(2)
	}
	fs := flag.NewFlagSet("poolstep", flag.ExitOnError)
	seed := fs.Int64("seed", 1, "PRNG seed")
	runs := fs.Int("runs", 100, "number of runs")
	first := fs.Int("first", 0, "index of the first run")
	only := fs.Int("only", -1, "replay exactly this run")
	monp := fs.String("mon", "", "file for the monitor verdicts")
	fs.Parse(os.Args[2:])
	out := bufio.NewWriterSize(os.Stdout, 1<<20)
	defer out.Flush()
	var mon *bufio.Writer
	if *monp != "" {
		f, err := os.Create(*monp)
		if err != nil {
			panic(err)
		}
		defer f.Close()
		mon = bufio.NewWriterSize(f, 1<<20)
	} else {
		mon = bufio.NewWriter(os.Stderr)
	}
	defer mon.Flush()
	lo, hi := *first, *first+*runs
	if *only >= 0 {
		lo, hi = *only, *only+1
	}
	opmix := map[string]int{}
	for k := lo; k < hi; k++ {
		r := generate(k, rand.New(rand.NewSource(*seed*1000003+int64(k))))
		fmt.Fprintf(mon, "RUN %d %s\n", k, r.describe())
		steps := r.execute(out)
		for o, n := range r.nops {
			opmix[o] += n
		}
		if len(r.failMsgs) == 0 {
			fmt.Fprintf(mon, "MON %d ok steps=%d tasks=%d maxrunning=%d threads=%d\n", k, steps, len(r.tasks), r.maxRunning, r.nclient+1+len(r.workers))
		} else {
			// one line per run: the tags of all failures, the first reasons
			tags := map[string]bool{}
			var reasons []string
			for _, m := range r.failMsgs {
				sp := strings.SplitN(m, " ", 2)
				for _, t := range strings.Split(sp[0], ",") {
					tags[t] = true
				}
				reasons = append(reasons, sp[1])
			}
			var tl []string
			for t := range tags {
				tl = append(tl, t)
			}
			sort.Strings(tl)
			if len(reasons) > 4 {
				reasons = reasons[:4]
			}
			fmt.Fprintf(mon, "MON %d FAIL %s %s\n", k, strings.Join(tl, ","), strings.Join(reasons, "; "))
		}
		if (k-lo)%256 == 255 {
			runtime.GC()
		}
	}
	var ks []string
	for o, n := range opmix {
		ks = append(ks, fmt.Sprintf("%s=%d", o, n))
	}
	sort.Strings(ks)
	fmt.Fprintf(mon, "OPMIX 0 %s\n", strings.Join(ks, " "))
}
